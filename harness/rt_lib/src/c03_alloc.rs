//! C03: diplomat_alloc / diplomat_free pair up (no leak, no invalid free) for symbolic layouts.
use diplomat_runtime::{diplomat_alloc, diplomat_free};

#[kani::proof]
#[kani::unwind(10)]
fn alloc_free_pair() {
    let size: usize = kani::any();
    kani::assume(size >= 1 && size <= 8);
    let sh: u8 = kani::any();
    kani::assume(sh <= 3);
    let align = 1usize << sh;
    unsafe {
        let p = diplomat_alloc(size, align);
        assert!(!p.is_null());
        assert!((p as usize) % align == 0);
        let mut i = 0;
        while i < size {
            *p.add(i) = i as u8;
            i += 1;
        }
        assert!(*p.add(size - 1) == (size - 1) as u8);
        diplomat_free(p, size, align);
    }
}
