//! E1 (second crate): the public items of diplomat-runtime's lib.rs through a path dependency
//! (the #[no_mangle] symbols would clash with rt_main's #[path] includes).
#![allow(unused)]
pub mod utf8_ref;
#[cfg(kani)]
mod c16_is_str;
#[cfg(kani)]
mod c03_alloc;
