//! Reference recogniser for well-formed UTF-8, written from Unicode 15 Table 3-7
//! ("Well-Formed UTF-8 Byte Sequences"). Independent of core::str::from_utf8.
//!
//!   U+0000..U+007F      00..7F
//!   U+0080..U+07FF      C2..DF 80..BF
//!   U+0800..U+0FFF      E0     A0..BF 80..BF
//!   U+1000..U+CFFF      E1..EC 80..BF 80..BF
//!   U+D000..U+D7FF      ED     80..9F 80..BF
//!   U+E000..U+FFFF      EE..EF 80..BF 80..BF
//!   U+10000..U+3FFFF    F0     90..BF 80..BF 80..BF
//!   U+40000..U+FFFFF    F1..F3 80..BF 80..BF 80..BF
//!   U+100000..U+10FFFF  F4     80..8F 80..BF 80..BF
pub fn well_formed_utf8(b: &[u8]) -> bool {
    let n = b.len();
    let mut i = 0;
    while i < n {
        let b0 = b[i];
        let (need, lo, hi): (usize, u8, u8) = if b0 <= 0x7F {
            (0, 0, 0)
        } else if b0 >= 0xC2 && b0 <= 0xDF {
            (1, 0x80, 0xBF)
        } else if b0 == 0xE0 {
            (2, 0xA0, 0xBF)
        } else if (b0 >= 0xE1 && b0 <= 0xEC) || b0 == 0xEE || b0 == 0xEF {
            (2, 0x80, 0xBF)
        } else if b0 == 0xED {
            (2, 0x80, 0x9F)
        } else if b0 == 0xF0 {
            (3, 0x90, 0xBF)
        } else if b0 >= 0xF1 && b0 <= 0xF3 {
            (3, 0x80, 0xBF)
        } else if b0 == 0xF4 {
            (3, 0x80, 0x8F)
        } else {
            return false;
        };
        if need > 0 {
            if i + need >= n {
                return false;
            }
            let b1 = b[i + 1];
            if b1 < lo || b1 > hi {
                return false;
            }
            let mut k = 2;
            while k <= need {
                let bk = b[i + k];
                if bk < 0x80 || bk > 0xBF {
                    return false;
                }
                k += 1;
            }
        }
        i += need + 1;
    }
    true
}

#[cfg(test)]
mod tests {
    use super::well_formed_utf8;
    /// Translator validation: the reference agrees with std on the complete 0..=3-byte space and
    /// on all 4-byte strings that start with a 4-byte lead (F0..F4) or are otherwise "near valid".
    #[test]
    fn reference_agrees_with_std_exhaustively() {
        let mut n = 0u64;
        assert_eq!(well_formed_utf8(&[]), std::str::from_utf8(&[]).is_ok());
        for a in 0..=255u8 {
            assert_eq!(well_formed_utf8(&[a]), std::str::from_utf8(&[a]).is_ok());
            for b in 0..=255u8 {
                assert_eq!(well_formed_utf8(&[a, b]), std::str::from_utf8(&[a, b]).is_ok());
                for c in 0..=255u8 {
                    let s = [a, b, c];
                    assert_eq!(well_formed_utf8(&s), std::str::from_utf8(&s).is_ok(), "{:x?}", s);
                    n += 1;
                }
            }
        }
        for a in 0xEEu8..=0xF5 {
            for b in 0..=255u8 {
                for c in 0..=255u8 {
                    for d in 0..=255u8 {
                        let s = [a, b, c, d];
                        assert_eq!(well_formed_utf8(&s), std::str::from_utf8(&s).is_ok(), "{:x?}", s);
                        n += 1;
                    }
                }
            }
        }
        assert!(n > 100_000_000);
    }
}
