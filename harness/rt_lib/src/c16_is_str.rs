//! C16: the exported UTF-8 predicate answers true exactly for well-formed UTF-8, for every byte
//! string up to the bound (symbolic contents and length), against the Table 3-7 reference.
use crate::utf8_ref::well_formed_utf8;
use diplomat_runtime::diplomat_is_str;

macro_rules! is_str_upto {
    ($name:ident, $n:expr, $unwind:expr) => {
        #[kani::proof]
        #[kani::unwind($unwind)]
        fn $name() {
            let bytes: [u8; $n] = kani::any();
            let len: usize = kani::any();
            kani::assume(len <= $n);
            let got = unsafe { diplomat_is_str(bytes.as_ptr(), len) };
            let want = well_formed_utf8(&bytes[..len]);
            assert!(got == want, "C16: diplomat_is_str disagrees with the UTF-8 definition");
            kani::cover!(got && len == $n);
            kani::cover!(!got && len == $n);
            kani::cover!(got && len == $n && bytes[0] >= 0x80);
        }
    };
}
is_str_upto!(is_str_len_0_to_4, 4, 10);
#[cfg(feature = "thorough")]
is_str_upto!(is_str_len_0_to_6, 6, 14);
#[cfg(feature = "deep")]
is_str_upto!(is_str_len_0_to_8, 8, 18);

/// Exact lengths with a multi-byte lead forced at a given position: cheap, pin-points failures.
macro_rules! is_str_exact {
    ($name:ident, $n:expr, $lead_lo:expr, $lead_hi:expr) => {
        #[kani::proof]
        #[kani::unwind(10)]
        fn $name() {
            let bytes: [u8; $n] = kani::any();
            kani::assume(bytes[0] >= $lead_lo && bytes[0] <= $lead_hi);
            let got = unsafe { diplomat_is_str(bytes.as_ptr(), $n) };
            assert!(got == well_formed_utf8(&bytes), "C16: diplomat_is_str disagrees with the UTF-8 definition");
            kani::cover!(got);
            kani::cover!(!got);
        }
    };
}
is_str_exact!(is_str_2byte_lead, 2, 0xC0, 0xDF);
is_str_exact!(is_str_3byte_lead, 3, 0xE0, 0xEF);
is_str_exact!(is_str_4byte_lead, 4, 0xF0, 0xF7);

#[kani::proof]
fn is_str_empty() {
    let b = [0u8; 1];
    assert!(unsafe { diplomat_is_str(b.as_ptr(), 0) });
    // an empty slice's pointer is dangling, not NULL (`from_raw_parts` requires non-null)
    assert!(unsafe { diplomat_is_str(core::ptr::NonNull::<u8>::dangling().as_ptr(), 0) });
}
