//! Model of the part of `std::string` that the generated C++ runtime's DiplomatWrite callbacks use
//! (`resize`, `length`, `capacity`, `operator[]`), per the C++ standard's documented semantics:
//! resize(n) with n > size() appends n - size() value-initialised (NUL) characters, with n < size()
//! truncates; capacity() >= size(); growing may reallocate (pointers into the old buffer are invalidated)
//! and may over-allocate. The amount of over-allocation is symbolic. Trusted; part of the C12 claim.
use alloc::alloc::{alloc, dealloc, Layout};

pub struct StdString {
    data: *mut u8,
    size: usize,
    cap: usize,
}

impl StdString {
    /// an empty string whose (small-string) capacity is `cap`
    pub fn new_empty(cap: usize) -> StdString {
        let data = unsafe { alloc(Layout::from_size_align_unchecked(cap + 1, 1)) };
        unsafe { *data = 0 };
        StdString { data, size: 0, cap }
    }
    pub fn length(&self) -> usize {
        self.size
    }
    pub fn capacity(&self) -> usize {
        self.cap
    }
    /// `&(*string)[0]` / `&string[0]`
    pub fn data_ptr(&mut self) -> *mut u8 {
        self.data
    }
    pub fn byte(&self, i: usize) -> u8 {
        assert!(i < self.size, "harness: std::string index out of range");
        unsafe { *self.data.add(i) }
    }
    pub fn resize(&mut self, n: usize) {
        unsafe {
            if n > self.cap {
                let slack: usize = kani::any();
                kani::assume(slack <= 2);
                let newcap = n + slack;
                let nd = alloc(Layout::from_size_align_unchecked(newcap + 1, 1));
                let mut i = 0;
                while i < self.size {
                    *nd.add(i) = *self.data.add(i);
                    i += 1;
                }
                dealloc(self.data, Layout::from_size_align_unchecked(self.cap + 1, 1));
                self.data = nd;
                self.cap = newcap;
            }
            let mut i = self.size;
            while i < n {
                *self.data.add(i) = 0;
                i += 1;
            }
            self.size = n;
            *self.data.add(n) = 0;
        }
    }
    pub fn destroy(self) {
        unsafe { dealloc(self.data, Layout::from_size_align_unchecked(self.cap + 1, 1)) };
    }
}
