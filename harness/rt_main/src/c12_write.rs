//! C12 (runtime half): DiplomatWrite holds exactly the concatenation of the chunks written before
//! the first failed growth, never a partial chunk, never touches a byte beyond the capacity, reports
//! failure through the sticky flag, and the fixed-buffer writer NUL-terminates inside its buffer.
use crate::write::*;
use alloc::alloc::{alloc, dealloc, Layout};
use core::ffi::c_void;
use core::fmt::Write;

/// What the foreign side sees (runtime.h: `struct DiplomatWrite`).
#[repr(C)]
pub struct WMirror {
    pub context: *mut c_void,
    pub buf: *mut u8,
    pub len: usize,
    pub cap: usize,
    pub grow_failed: bool,
    pub flush: extern "C" fn(*mut WMirror),
    pub grow: extern "C" fn(*mut WMirror, usize) -> bool,
}

#[cfg(not(feature = "thorough"))]
mod b {
    pub const K: usize = 3; // chunks
    pub const L: usize = 3; // bytes per chunk
    pub const KU: usize = 3; // chunks in the multi-byte harness
    pub const CAPMAX: usize = 6;
}
#[cfg(feature = "thorough")]
mod b {
    pub const K: usize = 4;
    pub const L: usize = 4;
    pub const KU: usize = 4;
    pub const CAPMAX: usize = 8;
}
use b::*;

static mut SCHED: [bool; K] = [false; K];
static mut EXTRA: [u8; K] = [0; K];
static mut GROW_CALLS: usize = 0;
static mut LAST_REQ: usize = 0;
static mut FLUSHES: usize = 0;

/// A caller-supplied `grow` obeying the documented contract and nothing more: on success a *new*,
/// exactly sized (+EXTRA) buffer, old contents copied, old buffer freed; on failure nothing changes.
extern "C" fn grow_sched(this: *mut WMirror, want: usize) -> bool {
    unsafe {
        let i = GROW_CALLS;
        GROW_CALLS += 1;
        LAST_REQ = want;
        if i >= K || !SCHED[i] {
            return false;
        }
        let w = &mut *this;
        let newcap = want + EXTRA[i] as usize;
        if newcap == 0 {
            return true;
        }
        let newbuf = alloc(Layout::from_size_align_unchecked(newcap, 1));
        let mut j = 0;
        while j < w.len {
            *newbuf.add(j) = *w.buf.add(j);
            j += 1;
        }
        dealloc(w.buf, Layout::from_size_align_unchecked(w.cap, 1));
        w.buf = newbuf;
        w.cap = newcap;
        true
    }
}
extern "C" fn flush_count(_this: *mut WMirror) {
    unsafe { FLUSHES += 1 };
}

fn caller_writer(cap: usize) -> DiplomatWrite {
    let buf = unsafe { alloc(Layout::from_size_align_unchecked(cap, 1)) };
    let m = WMirror {
        context: core::ptr::null_mut(),
        buf,
        len: 0,
        cap,
        grow_failed: false,
        flush: flush_count,
        grow: grow_sched,
    };
    assert!(core::mem::size_of::<WMirror>() == core::mem::size_of::<DiplomatWrite>());
    unsafe { core::mem::transmute(m) }
}
fn mirror(w: &DiplomatWrite) -> &WMirror {
    unsafe { &*(w as *const DiplomatWrite as *const WMirror) }
}

/// Shared body: `nchunks` chunks, each `chunk(i)` gives (bytes, len).
fn run_caller_supplied<const NCH: usize>(chunks: &[[u8; L]; NCH], lens: &[usize; NCH]) {
    let cap0: usize = kani::any();
    kani::assume(cap0 >= 1 && cap0 <= CAPMAX);
    unsafe {
        SCHED = kani::any();
        let ex: [u8; K] = kani::any();
        let mut i = 0;
        while i < K {
            kani::assume(ex[i] <= if cfg!(feature = "thorough") { 2 } else { 1 });
            i += 1;
        }
        EXTRA = ex;
    }
    let mut w = caller_writer(cap0);
    let mut exp = [0u8; K * L];
    let mut exp_len = 0usize;
    let mut failed = false;
    let mut c = 0;
    while c < NCH {
        let l = lens[c];
        let s = unsafe { core::str::from_utf8_unchecked(&chunks[c][..l]) };
        let (buf_before, len_before, cap_before, calls_before) =
            (mirror(&w).buf, mirror(&w).len, mirror(&w).cap, unsafe { GROW_CALLS });
        let r = w.write_str(s);
        assert!(r.is_ok());
        let m = mirror(&w);
        let calls_after = unsafe { GROW_CALLS };
        if failed {
            // sticky: nothing may change any more
            assert!(m.grow_failed);
            assert!(m.buf == buf_before && m.len == len_before && m.cap == cap_before);
            assert!(calls_after == calls_before);
        } else if len_before + l <= cap_before {
            assert!(calls_after == calls_before, "no growth needed");
            assert!(!m.grow_failed);
            let mut j = 0;
            while j < l {
                exp[exp_len + j] = chunks[c][j];
                j += 1;
            }
            exp_len += l;
        } else {
            assert!(calls_after == calls_before + 1);
            assert!(unsafe { LAST_REQ } >= len_before + l);
            let granted = unsafe { calls_before < K && SCHED[calls_before] };
            if granted {
                assert!(!m.grow_failed);
                let mut j = 0;
                while j < l {
                    exp[exp_len + j] = chunks[c][j];
                    j += 1;
                }
                exp_len += l;
            } else {
                failed = true;
                assert!(m.grow_failed, "C12: failed growth must set the sticky flag");
                assert!(m.buf == buf_before && m.len == len_before && m.cap == cap_before);
            }
        }
        // invariant after every write
        let m = mirror(&w);
        assert!(m.len == exp_len, "C12: len is the total of the fully written chunks");
        assert!(m.len <= m.cap, "C12: never beyond capacity");
        let mut j = 0;
        while j < exp_len {
            assert!(unsafe { *m.buf.add(j) } == exp[j], "C12: exact concatenation, no partial chunk");
            j += 1;
        }
        c += 1;
    }
    w.flush();
    assert!(unsafe { FLUSHES } == 1);
    let bytes = diplomat_buffer_write_get_bytes(&w);
    let n = diplomat_buffer_write_len(&w);
    if failed {
        assert!(bytes.is_null() && n == 0, "C12: failure is reported as NULL / 0");
    } else {
        assert!(bytes == mirror(&w).buf && n == exp_len);
    }
    kani::cover!(failed);
    kani::cover!(!failed && unsafe { GROW_CALLS } >= 2);
    kani::cover!(!failed && exp_len == NCH * L);
    let m = mirror(&w);
    unsafe { dealloc(m.buf, Layout::from_size_align_unchecked(m.cap, 1)) };
}

/// ASCII chunks (every byte < 0x80 is valid UTF-8 on its own): deeper sequence bound.
#[kani::proof]
#[cfg_attr(not(feature = "thorough"), kani::unwind(14))]
#[cfg_attr(feature = "thorough", kani::unwind(20))]
fn caller_supplied_ascii_chunks() {
    let chunks: [[u8; L]; K] = kani::any();
    let lens: [usize; K] = kani::any();
    let mut i = 0;
    while i < K {
        kani::assume(lens[i] <= L);
        let mut j = 0;
        while j < L {
            kani::assume(chunks[i][j] < 0x80);
            j += 1;
        }
        i += 1;
    }
    run_caller_supplied::<K>(&chunks, &lens);
}

/// Arbitrary well-formed UTF-8 chunks, multi-byte sequences included: each chunk is empty or the
/// encoding of one symbolic `char` (1..4 bytes, every scalar value), truncated to the L-byte chunk
/// bound (a char longer than L is replaced by the empty chunk).
#[kani::proof]
#[cfg_attr(not(feature = "thorough"), kani::unwind(14))]
#[cfg_attr(feature = "thorough", kani::unwind(20))]
fn caller_supplied_utf8_chunks() {
    let mut chunks: [[u8; L]; KU] = [[0; L]; KU];
    let mut lens: [usize; KU] = [0; KU];
    let mut i = 0;
    while i < KU {
        let c: char = kani::any();
        let empty: bool = kani::any();
        let mut tmp = [0u8; 4];
        let n = c.encode_utf8(&mut tmp).len();
        if !empty && n <= L {
            let mut j = 0;
            while j < n {
                chunks[i][j] = tmp[j];
                j += 1;
            }
            lens[i] = n;
        }
        i += 1;
    }
    kani::cover!(lens[0] == 2);
    kani::cover!(lens[0] == 3 && lens[1] == 0);
    run_caller_supplied::<KU>(&chunks, &lens);
}

// ---- fixed-size writer -------------------------------------------------------------------------

const FIXN: usize = 8;

#[kani::proof]
#[kani::unwind(14)]
fn simple_write_fixed_buffer() {
    // caller's buffer is the middle `size` bytes of a canary-filled array
    let mut area = [0xAAu8; FIXN + 4];
    let size: usize = kani::any();
    kani::assume(size >= 1 && size <= FIXN);
    let base = unsafe { area.as_mut_ptr().add(2) };
    let mut w = unsafe { diplomat_simple_write(base, size) };
    assert!(mirror(&w).cap == size - 1 && mirror(&w).len == 0 && !mirror(&w).grow_failed);
    let chunks: [[u8; L]; 2] = kani::any();
    let lens: [usize; 2] = kani::any();
    let mut exp = [0u8; 2 * L];
    let mut exp_len = 0;
    let mut failed = false;
    let mut c = 0;
    while c < 2 {
        kani::assume(lens[c] <= L);
        let mut j = 0;
        while j < L {
            kani::assume(chunks[c][j] < 0x80 && chunks[c][j] != 0);
            j += 1;
        }
        let s = unsafe { core::str::from_utf8_unchecked(&chunks[c][..lens[c]]) };
        let _ = w.write_str(s);
        if !failed && exp_len + lens[c] <= size - 1 {
            let mut j = 0;
            while j < lens[c] {
                exp[exp_len + j] = chunks[c][j];
                j += 1;
            }
            exp_len += lens[c];
        } else {
            failed = true;
        }
        assert!(mirror(&w).grow_failed == failed);
        assert!(mirror(&w).len == exp_len);
        c += 1;
    }
    w.flush();
    w.flush(); // documented as idempotent
    assert!(mirror(&w).len == exp_len && exp_len <= size - 1);
    let mut j = 0;
    while j < exp_len {
        assert!(area[2 + j] == exp[j], "C12: exact content");
        j += 1;
    }
    assert!(area[2 + exp_len] == 0, "C12: NUL terminator inside the caller's buffer");
    // nothing outside [base, base+size) was touched
    assert!(area[0] == 0xAA && area[1] == 0xAA);
    let mut j = 2 + size;
    while j < FIXN + 4 {
        assert!(area[j] == 0xAA, "C12: byte beyond the caller's buffer touched");
        j += 1;
    }
    let bytes = diplomat_buffer_write_get_bytes(&w);
    let n = diplomat_buffer_write_len(&w);
    if failed {
        assert!(bytes.is_null() && n == 0);
    } else {
        assert!(bytes == base && n == exp_len);
    }
    kani::cover!(failed);
    kani::cover!(!failed && exp_len == size - 1 && size > 1);
}

// ---- Rust-owned writer -------------------------------------------------------------------------

#[kani::proof]
#[kani::unwind(14)]
fn rust_owned_writer() {
    let cap0: usize = kani::any();
    kani::assume(cap0 <= 4);
    let wp = diplomat_buffer_write_create(cap0);
    let w = unsafe { &mut *wp };
    let chunks: [[u8; L]; 2] = kani::any();
    let lens: [usize; 2] = kani::any();
    let mut exp = [0u8; 2 * L];
    let mut exp_len = 0;
    let mut c = 0;
    while c < 2 {
        kani::assume(lens[c] <= L);
        let mut j = 0;
        while j < L {
            kani::assume(chunks[c][j] < 0x80);
            j += 1;
        }
        let s = unsafe { core::str::from_utf8_unchecked(&chunks[c][..lens[c]]) };
        let _ = w.write_str(s);
        let mut j = 0;
        while j < lens[c] {
            exp[exp_len + j] = chunks[c][j];
            j += 1;
        }
        exp_len += lens[c];
        c += 1;
    }
    w.flush();
    let bytes = diplomat_buffer_write_get_bytes(w);
    let n = diplomat_buffer_write_len(w);
    assert!(!bytes.is_null() || exp_len == 0 || true);
    assert!(n == exp_len);
    assert!(mirror(w).len <= mirror(w).cap);
    let mut j = 0;
    while j < exp_len {
        assert!(unsafe { *bytes.add(j) } == exp[j], "C12: exact content after real Vec growth");
        j += 1;
    }
    kani::cover!(exp_len > cap0);
    unsafe { diplomat_buffer_write_destroy(wp) };
}
