//! C16: slice / str views round-trip (pointer, length, contents), NULL+0 accepted.
use crate::slices::*;
use alloc::boxed::Box;
use alloc::vec::Vec;

/// What a C caller sees of every slice view: { ptr, len }.
#[repr(C)]
#[derive(Clone, Copy)]
pub struct RawView<T> {
    pub ptr: *mut T,
    pub len: usize,
}

const N: usize = 4;

macro_rules! slice_harnesses {
    ($modname:ident, $t:ty, $bits:expr) => {
        mod $modname {
            use super::*;
            type T = $t;
            #[inline(always)]
            fn bits(x: T) -> u64 { ($bits)(x) }

            // &[T] -> DiplomatSlice -> &[T], plus Deref
            #[kani::proof]
            #[kani::unwind(6)]
            fn borrowed_roundtrip() {
                let arr: [T; N] = kani::any();
                let len: usize = kani::any();
                kani::assume(len <= N);
                let s: &[T] = &arr[..len];
                let v: DiplomatSlice<T> = s.into();
                // what C sees
                assert!(core::mem::size_of::<DiplomatSlice<T>>() == core::mem::size_of::<RawView<T>>());
                let raw: RawView<T> = unsafe { core::mem::transmute_copy(&v) };
                assert!(raw.ptr as *const T == s.as_ptr());
                assert!(raw.len == len);
                let d: &[T] = &*v;
                assert!(d.len() == len && d.as_ptr() == s.as_ptr());
                let back: &[T] = v.into();
                assert!(back.as_ptr() == s.as_ptr());
                assert!(back.len() == len);
                let mut i = 0;
                while i < len {
                    assert!(bits(back[i]) == bits(arr[i]));
                    i += 1;
                }
                kani::cover!(len == 0);
                kani::cover!(len == N);
            }

            // view built by the foreign side from {ptr,len}
            #[kani::proof]
            #[kani::unwind(6)]
            fn borrowed_from_c() {
                let arr: [T; N] = kani::any();
                let len: usize = kani::any();
                kani::assume(len <= N);
                let null: bool = kani::any();
                let raw = if null {
                    RawView::<T> { ptr: core::ptr::null_mut(), len: 0 }
                } else {
                    RawView::<T> { ptr: arr.as_ptr() as *mut T, len }
                };
                let v: DiplomatSlice<T> = unsafe { core::mem::transmute_copy(&raw) };
                let d: &[T] = &*v;
                let back: &[T] = v.into();
                if null {
                    assert!(back.len() == 0);
                    assert!(d.len() == 0);
                    assert!(back.as_ptr() as usize != 0 && (back.as_ptr() as usize) % core::mem::align_of::<T>() == 0,
                            "C16: NULL view must become a valid empty slice");
                    assert!(d.as_ptr() as usize != 0 && (d.as_ptr() as usize) % core::mem::align_of::<T>() == 0,
                            "C16: NULL view must deref to a valid empty slice");
                } else {
                    assert!(back.len() == len && d.len() == len);
                    assert!(back.as_ptr() == arr.as_ptr());
                    let mut i = 0;
                    while i < len {
                        assert!(bits(back[i]) == bits(arr[i]));
                        assert!(bits(d[i]) == bits(arr[i]));
                        i += 1;
                    }
                }
                kani::cover!(null);
                kani::cover!(!null && len == N);
            }

            // &mut [T] -> DiplomatSliceMut -> &mut [T], Deref/DerefMut; writes land in the array
            #[kani::proof]
            #[kani::unwind(6)]
            fn mut_roundtrip() {
                let mut arr: [T; N] = kani::any();
                let orig = arr;
                let len: usize = kani::any();
                kani::assume(len <= N);
                let p = arr.as_mut_ptr();
                let w: T = kani::any();
                let k: usize = kani::any();
                kani::assume(k < N);
                {
                    let s: &mut [T] = &mut arr[..len];
                    let mut v: DiplomatSliceMut<T> = s.into();
                    let raw: RawView<T> = unsafe { core::mem::transmute_copy(&v) };
                    assert!(raw.ptr == p && raw.len == len);
                    {
                        let d: &[T] = &*v;
                        assert!(d.len() == len && d.as_ptr() == p as *const T);
                    }
                    {
                        let dm: &mut [T] = &mut *v;
                        assert!(dm.len() == len && dm.as_mut_ptr() == p);
                    }
                    let back: &mut [T] = v.into();
                    assert!(back.len() == len && back.as_mut_ptr() == p);
                    let mut i = 0;
                    while i < len {
                        assert!(bits(back[i]) == bits(orig[i]));
                        i += 1;
                    }
                    if k < len {
                        back[k] = w;
                    }
                }
                let mut i = 0;
                while i < N {
                    if i == k && k < len {
                        assert!(bits(arr[i]) == bits(w));
                    } else {
                        assert!(bits(arr[i]) == bits(orig[i]));
                    }
                    i += 1;
                }
                kani::cover!(k < len);
                kani::cover!(len == 0);
            }

            #[kani::proof]
            #[kani::unwind(6)]
            fn mut_from_c() {
                let mut arr: [T; N] = kani::any();
                let orig = arr;
                let len: usize = kani::any();
                kani::assume(len <= N);
                let null: bool = kani::any();
                let raw = if null {
                    RawView::<T> { ptr: core::ptr::null_mut(), len: 0 }
                } else {
                    RawView::<T> { ptr: arr.as_mut_ptr(), len }
                };
                let mut v: DiplomatSliceMut<T> = unsafe { core::mem::transmute_copy(&raw) };
                let dl = (&*v).len();
                let dp = (&*v).as_ptr() as usize;
                let dml = (&mut *v).len();
                let dmp = (&mut *v).as_mut_ptr() as usize;
                let back: &mut [T] = v.into();
                if null {
                    assert!(back.len() == 0 && dl == 0 && dml == 0);
                    let al = core::mem::align_of::<T>();
                    assert!(dp != 0 && dp % al == 0 && dmp != 0 && dmp % al == 0 && back.as_ptr() as usize != 0 && (back.as_ptr() as usize) % al == 0,
                            "C16: NULL mutable view must become / deref to a valid empty slice");
                } else {
                    assert!(back.len() == len && dl == len && dml == len);
                    let mut i = 0;
                    while i < len {
                        assert!(bits(back[i]) == bits(orig[i]));
                        i += 1;
                    }
                }
                kani::cover!(null);
                kani::cover!(!null && len == N);
            }

            // Box<[T]> -> DiplomatOwnedSlice -> Box<[T]> (same allocation, same contents, freed once)
            #[kani::proof]
            #[kani::unwind(6)]
            fn owned_roundtrip() {
                let arr: [T; N] = kani::any();
                let len: usize = kani::any();
                kani::assume(len <= N);
                // concrete shapes selected by the symbolic length (see c03_owned::tok_box)
                let b: Box<[T]> = match len {
                    0 => Box::new([]) as Box<[T]>,
                    1 => Box::new([arr[0]]) as Box<[T]>,
                    2 => Box::new([arr[0], arr[1]]) as Box<[T]>,
                    3 => Box::new([arr[0], arr[1], arr[2]]) as Box<[T]>,
                    _ => Box::new(arr) as Box<[T]>,
                };
                let p = b.as_ptr();
                let mut o: DiplomatOwnedSlice<T> = b.into();
                let raw: RawView<T> = unsafe { core::mem::transmute_copy(&o) };
                assert!(raw.ptr as *const T == p && raw.len == len);
                assert!((&*o).len() == len && (&*o).as_ptr() == p);
                assert!((&mut *o).len() == len);
                let keep: bool = kani::any();
                if keep {
                    let back: Box<[T]> = o.into();
                    assert!(back.len() == len && back.as_ptr() == p);
                    let mut i = 0;
                    while i < len {
                        assert!(bits(back[i]) == bits(arr[i]));
                        i += 1;
                    }
                    drop(back);
                } else {
                    drop(o);
                }
                kani::cover!(len == 0 && keep);
                kani::cover!(len == 0 && !keep);
                kani::cover!(len == N);
            }

            // owned view spelled NULL+0 by the foreign side
            #[kani::proof]
            #[kani::unwind(3)]
            fn owned_null_from_c() {
                let raw = RawView::<T> { ptr: core::ptr::null_mut(), len: 0 };
                let mut o: DiplomatOwnedSlice<T> = unsafe { core::mem::transmute_copy(&raw) };
                assert!((&*o).len() == 0);
                assert!((&mut *o).len() == 0);
                let keep: bool = kani::any();
                if keep {
                    let back: Box<[T]> = o.into();
                    assert!(back.len() == 0);
                    // "accepted as the empty slice": a valid empty Box<[T]> is non-null and aligned for T
                    let p = back.as_ptr() as usize;
                    assert!(p != 0, "C16: NULL owned view must become a valid (non-null) empty boxed slice");
                    assert!(p % core::mem::align_of::<T>() == 0, "C16: NULL owned view must become a valid (aligned) empty boxed slice");
                    drop(back);
                } else {
                    drop(o);
                }
            }
        }
    };
}

slice_harnesses!(t_u8, u8, |x: u8| x as u64);
slice_harnesses!(t_i8, i8, |x: i8| x as u8 as u64);
slice_harnesses!(t_u16, u16, |x: u16| x as u64);
slice_harnesses!(t_i16, i16, |x: i16| x as u16 as u64);
slice_harnesses!(t_u32, u32, |x: u32| x as u64);
slice_harnesses!(t_i32, i32, |x: i32| x as u32 as u64);
slice_harnesses!(t_u64, u64, |x: u64| x);
slice_harnesses!(t_i64, i64, |x: i64| x as u64);
slice_harnesses!(t_usize, usize, |x: usize| x as u64);
slice_harnesses!(t_isize, isize, |x: isize| x as usize as u64);
slice_harnesses!(t_f32, f32, |x: f32| x.to_bits() as u64);
slice_harnesses!(t_f64, f64, |x: f64| x.to_bits());
slice_harnesses!(t_bool, bool, |x: bool| x as u64);
// zero-sized element types: the statement says "every element type"; a view of N zero-sized elements still has length N
macro_rules! zst_harnesses {
    ($modname:ident, $t:ty, $v:expr) => {
        mod $modname {
            use super::*;
            type T = $t;
            // pointer identity is meaningless for zero-sized elements; the length must survive every conversion
            #[kani::proof]
            #[kani::unwind(6)]
            fn zst_lengths_roundtrip() {
                let arr: [T; N] = [$v; N];
                let len: usize = kani::any();
                kani::assume(len <= N);
                let v: DiplomatSlice<T> = (&arr[..len]).into();
                let raw: RawView<T> = unsafe { core::mem::transmute_copy(&v) };
                assert!(raw.len == len && (&*v).len() == len);
                let back: &[T] = v.into();
                assert!(back.len() == len);
                let b: Box<[T]> = match len {
                    0 => Box::new([]) as Box<[T]>,
                    1 => Box::new([$v]) as Box<[T]>,
                    2 => Box::new([$v, $v]) as Box<[T]>,
                    3 => Box::new([$v, $v, $v]) as Box<[T]>,
                    _ => Box::new([$v; N]) as Box<[T]>,
                };
                let mut o: DiplomatOwnedSlice<T> = b.into();
                let rawo: RawView<T> = unsafe { core::mem::transmute_copy(&o) };
                assert!(rawo.len == len, "C16: owned view of zero-sized elements must keep its length");
                assert!((&*o).len() == len && (&mut *o).len() == len);
                let bb: Box<[T]> = o.into();
                assert!(bb.len() == len, "C16: boxed slice of zero-sized elements must keep its length through the owned view");
                kani::cover!(len == N);
            }

            // mutable views: over a stack array and over a heap-backed slice (whose data pointer is the dangling sentinel)
            #[kani::proof]
            #[kani::unwind(6)]
            fn zst_mut_lengths_roundtrip() {
                let mut arr: [T; N] = [$v; N];
                let len: usize = kani::any();
                kani::assume(len <= N);
                let heap: bool = kani::any();
                let mut bx: Box<[T]> = match len {
                    0 => Box::new([]) as Box<[T]>,
                    1 => Box::new([$v]) as Box<[T]>,
                    2 => Box::new([$v, $v]) as Box<[T]>,
                    3 => Box::new([$v, $v, $v]) as Box<[T]>,
                    _ => Box::new([$v; N]) as Box<[T]>,
                };
                let src: &mut [T] = if heap { &mut bx[..] } else { &mut arr[..len] };
                let mut v: DiplomatSliceMut<T> = src.into();
                let raw: RawView<T> = unsafe { core::mem::transmute_copy(&v) };
                assert!(raw.len == len, "C16: mutable view of zero-sized elements must keep its length");
                assert!((&*v).len() == len && (&mut *v).len() == len);
                let back: &mut [T] = v.into();
                assert!(back.len() == len, "C16: mutable slice of zero-sized elements must keep its length through the view");
                kani::cover!(heap && len == N);
                kani::cover!(!heap && len == 1);
            }
        }
    };
}
zst_harnesses!(t_unit, (), ());
zst_harnesses!(t_zst_array, [u32; 0], []);

// ---- strings -------------------------------------------------------------------------------

#[cfg(not(feature = "thorough"))]
const SN: usize = 4;
#[cfg(feature = "thorough")]
const SN: usize = 6;

#[kani::proof]
#[kani::unwind(9)]
fn str_roundtrip() {
    let arr: [u8; SN] = kani::any();
    let len: usize = kani::any();
    kani::assume(len <= SN);
    if let Ok(s) = core::str::from_utf8(&arr[..len]) {
        let v: DiplomatUtf8StrSlice = s.into();
        let raw: RawView<u8> = unsafe { core::mem::transmute_copy(&v) };
        assert!(raw.ptr as *const u8 == s.as_ptr() && raw.len == len);
        let d: &str = &*v;
        assert!(d.as_ptr() == s.as_ptr() && d.len() == len);
        let back: &str = v.into();
        assert!(back.as_ptr() == s.as_ptr() && back.len() == len);
        let bb = back.as_bytes();
        let mut i = 0;
        while i < len {
            assert!(bb[i] == arr[i]);
            i += 1;
        }
        kani::cover!(len == SN);
        kani::cover!(len == 0);
        kani::cover!(len == 2 && arr[0] >= 0xC2);
    }
}

#[kani::proof]
#[kani::unwind(9)]
fn str_null_from_c() {
    let raw = RawView::<u8> { ptr: core::ptr::null_mut(), len: 0 };
    let v: DiplomatUtf8StrSlice = unsafe { core::mem::transmute_copy(&raw) };
    let d: &str = &*v;
    assert!(d.len() == 0);
    // "accepted as the empty slice": a &str is a reference, its data pointer is never NULL
    assert!(!d.as_ptr().is_null(), "C16: NULL string view must deref to a valid (non-null) empty &str");
    let back: &str = v.into();
    assert!(back.len() == 0);
    assert!(!back.as_ptr().is_null(), "C16: NULL string view must convert to a valid (non-null) empty &str");
}

#[kani::proof]
#[kani::unwind(9)]
fn owned_str_roundtrip() {
    let arr: [u8; SN] = kani::any();
    let len: usize = kani::any();
    kani::assume(len <= SN);
    if let Ok(s) = core::str::from_utf8(&arr[..len]) {
        let b: Box<str> = Box::from(s);
        let p = b.as_ptr();
        let o: DiplomatOwnedUTF8StrSlice = b.into();
        let raw: RawView<u8> = unsafe { core::mem::transmute_copy(&o) };
        assert!(raw.ptr as *const u8 == p && raw.len == len);
        let d: &str = &*o;
        assert!(d.len() == len && d.as_ptr() == p);
        let keep: bool = kani::any();
        if keep {
            let back: Box<str> = o.into();
            assert!(back.len() == len && back.as_ptr() == p);
            let bb = back.as_bytes();
            let mut i = 0;
            while i < len {
                assert!(bb[i] == arr[i]);
                i += 1;
            }
        } else {
            drop(o);
        }
        kani::cover!(len == SN && keep);
        kani::cover!(len == 0 && keep);
        kani::cover!(len == 0 && !keep);
    }
}

/// concrete multi-byte strings: lengths are byte lengths, not character counts (cheap: everything is concrete)
macro_rules! owned_str_concrete {
    ($name:ident, $lit:expr) => {
        #[kani::proof]
        #[kani::unwind(12)]
        fn $name() {
            let s: &str = $lit;
            let b: Box<str> = Box::from(s);
            let p = b.as_ptr();
            let o: DiplomatOwnedUTF8StrSlice = b.into();
            let raw: RawView<u8> = unsafe { core::mem::transmute_copy(&o) };
            assert!(raw.ptr as *const u8 == p && raw.len == s.len(), "C16: owned str view must keep pointer and byte length");
            let back: Box<str> = o.into();
            assert!(back.len() == s.len() && back.as_ptr() == p);
            let v: DiplomatUtf8StrSlice = s.into();
            let rawv: RawView<u8> = unsafe { core::mem::transmute_copy(&v) };
            assert!(rawv.ptr as *const u8 == s.as_ptr() && rawv.len == s.len(), "C16: str view must keep pointer and byte length");
        }
    };
}
owned_str_concrete!(owned_str_concrete_latin, "h\u{e9}llo");
owned_str_concrete!(owned_str_concrete_astral, "\u{1F600}x");

#[kani::proof]
#[kani::unwind(3)]
fn owned_str_null_from_c() {
    let raw = RawView::<u8> { ptr: core::ptr::null_mut(), len: 0 };
    let o: DiplomatOwnedUTF8StrSlice = unsafe { core::mem::transmute_copy(&raw) };
    let d: &str = &*o;
    assert!(d.len() == 0);
    assert!(!d.as_ptr().is_null(), "C16: NULL owned string view must deref to a valid (non-null) empty &str");
    let keep: bool = kani::any();
    if keep {
        let back: Box<str> = o.into();
        assert!(back.len() == 0);
        assert!(!back.as_ptr().is_null(), "C16: NULL owned string view must become a valid (non-null) empty Box<str>");
    } else {
        drop(o);
    }
}

// DiplomatStr16Slice / DiplomatStrSlice are aliases of DiplomatSlice<u16>/<u8>: make sure of it.
#[kani::proof]
#[kani::unwind(6)]
fn str16_alias_roundtrip() {
    let arr: [u16; N] = kani::any();
    let len: usize = kani::any();
    kani::assume(len <= N);
    let s: &[u16] = &arr[..len];
    let v: DiplomatStr16Slice = s.into();
    let back: &[u16] = v.into();
    assert!(back.as_ptr() == s.as_ptr() && back.len() == len);
    let s8: [u8; N] = kani::any();
    let v8: DiplomatStrSlice = (&s8[..len]).into();
    let b8: &[u8] = v8.into();
    assert!(b8.as_ptr() == s8.as_ptr() && b8.len() == len);
    let o: DiplomatOwnedStr16Slice = Vec::<u16>::new().into_boxed_slice().into();
    let ob: Box<[u16]> = o.into();
    assert!(ob.len() == 0);
    let o8: DiplomatOwnedStrSlice = Vec::<u8>::new().into_boxed_slice().into();
    let ob8: Box<[u8]> = o8.into();
    assert!(ob8.len() == 0);
}
