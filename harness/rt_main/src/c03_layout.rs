//! C03: every block is released with the layout it was allocated with (the GlobalAlloc contract), across the boundary:
//! buffers the foreign side obtains from `diplomat_alloc` and hands to Rust as owned slices/strings, and boxed
//! slices/strings Rust hands out that the foreign side releases with `diplomat_free`.
//!
//! CBMC's allocator model checks the *size* of a released object but knows nothing about the alignment a block was
//! requested with. The harnesses therefore replace std's allocation entry points (`alloc::alloc::{alloc, dealloc,
//! realloc}` and the private `dealloc_nonnull` / `realloc_nonnull` that `Global` uses) by recording wrappers
//! (`#[kani::stub]`, `-Z stubbing`) around the very same `__rust_alloc` / `__rust_dealloc` / `__rust_realloc`
//! primitives; the wrappers keep a table of live blocks and assert that a release names the recorded layout.
//! Native replay runs under the checking allocator of `checking_alloc.rs`, which aborts on the same mismatch.
use crate::slices::*;
use crate::write::*;
use core::alloc::Layout;
use core::ptr::NonNull;

extern "Rust" {
    fn __rust_alloc(size: usize, align: usize) -> *mut u8;
    fn __rust_dealloc(ptr: *mut u8, size: usize, align: usize);
    fn __rust_realloc(ptr: *mut u8, old_size: usize, align: usize, new_size: usize) -> *mut u8;
}

const SLOTS: usize = 4;
static mut LIVE: [(usize, usize, usize); SLOTS] = [(0, 0, 0); SLOTS];

unsafe fn note(p: *mut u8, size: usize, align: usize) {
    let mut i = 0;
    while i < SLOTS {
        if LIVE[i].0 == 0 {
            LIVE[i] = (p as usize, size, align);
            return;
        }
        i += 1;
    }
    assert!(false, "harness: more live blocks than the allocation table holds");
}

unsafe fn release(p: *mut u8, size: usize, align: usize) {
    let mut i = 0;
    while i < SLOTS {
        if LIVE[i].0 == p as usize && LIVE[i].0 != 0 {
            assert!(
                LIVE[i].1 == size && LIVE[i].2 == align,
                "C03: memory is released with a layout different from the one it was allocated with"
            );
            LIVE[i] = (0, 0, 0);
            return;
        }
        i += 1;
    }
    assert!(false, "C03: memory is released that no allocation handed out (or released twice)");
}

unsafe fn live_blocks() -> usize {
    let mut n = 0;
    let mut i = 0;
    while i < SLOTS {
        if LIVE[i].0 != 0 {
            n += 1;
        }
        i += 1;
    }
    n
}

pub unsafe fn m_alloc(l: Layout) -> *mut u8 {
    let p = __rust_alloc(l.size(), l.align());
    note(p, l.size(), l.align());
    p
}
pub unsafe fn m_dealloc(p: *mut u8, l: Layout) {
    release(p, l.size(), l.align());
    __rust_dealloc(p, l.size(), l.align())
}
pub unsafe fn m_dealloc_nn(p: NonNull<u8>, l: Layout) {
    m_dealloc(p.as_ptr(), l)
}
pub unsafe fn m_realloc(p: *mut u8, l: Layout, new_size: usize) -> *mut u8 {
    release(p, l.size(), l.align());
    let q = __rust_realloc(p, l.size(), l.align(), new_size);
    note(q, new_size, l.align());
    q
}
pub unsafe fn m_realloc_nn(p: NonNull<u8>, l: Layout, new_size: usize) -> *mut u8 {
    m_realloc(p.as_ptr(), l, new_size)
}

#[repr(C)]
#[derive(Clone, Copy)]
struct Raw<T> {
    ptr: *mut T,
    len: usize,
}

macro_rules! layout_harnesses {
    ($modname:ident, $T:ty) => {
        mod $modname {
            use super::*;
            type T = $T;

            /// foreign side: diplomat_alloc(len * size, align) -> owned slice argument -> Rust drops it
            #[kani::proof]
            #[kani::unwind(6)]
            #[kani::stub(alloc::alloc::alloc, m_alloc)]
            #[kani::stub(alloc::alloc::dealloc, m_dealloc)]
            #[kani::stub(alloc::alloc::dealloc_nonnull, m_dealloc_nn)]
            #[kani::stub(alloc::alloc::realloc, m_realloc)]
            #[kani::stub(alloc::alloc::realloc_nonnull, m_realloc_nn)]
            pub(crate) fn foreign_alloc_rust_drop() {
                unsafe {
                    let len: usize = kani::any();
                    kani::assume(len >= 1 && len <= 3);
                    let p = crate::diplomat_alloc(len * core::mem::size_of::<T>(), core::mem::align_of::<T>()) as *mut T;
                    kani::assume(!p.is_null());
                    let mut i = 0;
                    while i < len {
                        p.add(i).write(kani::any());
                        i += 1;
                    }
                    let raw = Raw::<T> { ptr: p, len };
                    let o: DiplomatOwnedSlice<T> = core::mem::transmute_copy(&raw);
                    if kani::any() {
                        let b: Box<[T]> = o.into();
                        assert!(b.len() == len);
                        drop(b);
                    } else {
                        drop(o);
                    }
                    assert!(live_blocks() == 0, "C03: a foreign-allocated buffer handed to Rust was not released");
                    kani::cover!(len == 3);
                }
            }

            /// Rust side: Box<[T]> -> owned view handed out -> foreign side releases it with diplomat_free(ptr, len * size, align)
            #[kani::proof]
            #[kani::unwind(6)]
            #[kani::stub(alloc::alloc::alloc, m_alloc)]
            #[kani::stub(alloc::alloc::dealloc, m_dealloc)]
            #[kani::stub(alloc::alloc::dealloc_nonnull, m_dealloc_nn)]
            #[kani::stub(alloc::alloc::realloc, m_realloc)]
            #[kani::stub(alloc::alloc::realloc_nonnull, m_realloc_nn)]
            pub(crate) fn rust_box_foreign_free() {
                unsafe {
                    let a: [T; 3] = kani::any();
                    let len: usize = kani::any();
                    kani::assume(len >= 1 && len <= 3);
                    let b: Box<[T]> = match len {
                        1 => Box::new([a[0]]) as Box<[T]>,
                        2 => Box::new([a[0], a[1]]) as Box<[T]>,
                        _ => Box::new(a) as Box<[T]>,
                    };
                    let o: DiplomatOwnedSlice<T> = b.into();
                    let raw: Raw<T> = core::mem::transmute_copy(&o);
                    core::mem::forget(o);
                    assert!(raw.len == len);
                    crate::diplomat_free(raw.ptr as *mut u8, raw.len * core::mem::size_of::<T>(), core::mem::align_of::<T>());
                    assert!(live_blocks() == 0, "C03: a boxed slice handed out was not released by diplomat_free");
                    kani::cover!(len == 2);
                }
            }
        }
    };
}

layout_harnesses!(c03_layout_u8, u8);
layout_harnesses!(c03_layout_u16, u16);
layout_harnesses!(c03_layout_u32, u32);
layout_harnesses!(c03_layout_u64, u64);

/// strings: Box<str> out, released by the foreign side as len bytes of alignment 1; foreign-allocated bytes in, dropped as Box<str>
#[kani::proof]
#[kani::unwind(6)]
#[kani::stub(alloc::alloc::alloc, m_alloc)]
#[kani::stub(alloc::alloc::dealloc, m_dealloc)]
#[kani::stub(alloc::alloc::dealloc_nonnull, m_dealloc_nn)]
#[kani::stub(alloc::alloc::realloc, m_realloc)]
#[kani::stub(alloc::alloc::realloc_nonnull, m_realloc_nn)]
pub(crate) fn c03_layout_str_both_ways() {
    unsafe {
        let out: bool = kani::any();
        if out {
            let b: Box<str> = Box::from("héllo");
            let n = b.len();
            let o: DiplomatOwnedUTF8StrSlice = b.into();
            let raw: Raw<u8> = core::mem::transmute_copy(&o);
            core::mem::forget(o);
            assert!(raw.len == n);
            crate::diplomat_free(raw.ptr, raw.len, 1);
        } else {
            let p = crate::diplomat_alloc(3, 1);
            kani::assume(!p.is_null());
            p.write(b'a');
            p.add(1).write(b'b');
            p.add(2).write(b'c');
            let raw = Raw::<u8> { ptr: p, len: 3 };
            let o: DiplomatOwnedUTF8StrSlice = core::mem::transmute_copy(&raw);
            if kani::any() {
                let s: Box<str> = o.into();
                assert!(s.len() == 3);
                drop(s);
            } else {
                drop(o);
            }
        }
        assert!(live_blocks() == 0, "C03: a string buffer crossing the boundary was not released");
        kani::cover!(out);
        kani::cover!(!out);
    }
}

/// Rust-owned writer: every block of the create / grow / destroy path is released with its own layout
#[kani::proof]
#[kani::unwind(8)]
#[kani::stub(alloc::alloc::alloc, m_alloc)]
#[kani::stub(alloc::alloc::dealloc, m_dealloc)]
#[kani::stub(alloc::alloc::dealloc_nonnull, m_dealloc_nn)]
#[kani::stub(alloc::alloc::realloc, m_realloc)]
#[kani::stub(alloc::alloc::realloc_nonnull, m_realloc_nn)]
pub(crate) fn c03_layout_buffer_writer() {
    use core::fmt::Write;
    let cap: usize = kani::any();
    kani::assume(cap <= 3);
    let w = diplomat_buffer_write_create(cap);
    if kani::any() {
        let _ = unsafe { &mut *w }.write_str("abcde");
    }
    unsafe { diplomat_buffer_write_destroy(w) };
    unsafe { assert!(live_blocks() == 0, "C03: the Rust-owned writer leaked a block") };
    kani::cover!(cap == 0);
    kani::cover!(cap == 3);
}
