//! C03 (runtime half): DiplomatResult / DiplomatOption never drop their payload twice or leak it,
//! over symbolic arms and symbolic operation sequences. C10: `is_ok` is true exactly for Ok/Some.
use crate::result::*;
use crate::tok::*;

#[cfg(not(feature = "thorough"))]
const STEPS: usize = 3;
#[cfg(feature = "thorough")]
const STEPS: usize = 5;

enum RH {
    Std(Result<Tok, TokE>),
    Dip(DiplomatResult<Tok, TokE>),
    Gone,
}

fn res_step(h: RH, op: u8, ok: bool) -> RH {
    match (h, op) {
        (RH::Std(r), 0) => {
            assert!(r.is_ok() == ok);
            RH::Dip(r.into())
        }
        (RH::Dip(d), 1) => {
            assert!(d.is_ok == ok, "C10: is_ok must be true exactly for Ok");
            RH::Std(d.into())
        }
        (RH::Dip(d), 2) => {
            let c = d.clone();
            assert!(c.is_ok == d.is_ok);
            if kani::any() {
                drop(d);
                RH::Dip(c)
            } else {
                drop(c);
                RH::Dip(d)
            }
        }
        (RH::Dip(d), 3) => {
            match d.as_ref() {
                Ok(t) => {
                    assert!(ok);
                    assert!(live(t.id));
                    assert!(*t.cell == t.id as u8);
                }
                Err(t) => {
                    assert!(!ok);
                    assert!(live(t.inner.id));
                    assert!(*t.inner.cell == t.inner.id as u8 && t.tag == 0xE0E0_E0E0_E0E0_E0E0);
                }
            }
            RH::Dip(d)
        }
        (h, 4) => {
            drop(h);
            RH::Gone
        }
        (h, _) => h,
    }
}

#[kani::proof]
#[kani::unwind(10)]
fn result_tok_sequence() {
    let ok: bool = kani::any();
    let mut h = RH::Std(if ok { Ok(Tok::new()) } else { Err(TokE::new()) });
    let mut i = 0;
    while i < STEPS {
        let op: u8 = kani::any();
        kani::assume(op < 5);
        h = res_step(h, op, ok);
        i += 1;
    }
    kani::cover!(matches!(h, RH::Std(_)));
    kani::cover!(matches!(h, RH::Dip(_)));
    kani::cover!(matches!(h, RH::Gone));
    drop(h);
    assert_each_dropped_once();
}

// Direct, un-sequenced versions (cheap; these are the ones that pin-point a failing conversion).
#[kani::proof]
#[kani::unwind(10)]
fn result_into_std_once() {
    let ok: bool = kani::any();
    let d: DiplomatResult<Tok, TokE> = if ok { Ok(Tok::new()) } else { Err(TokE::new()) }.into();
    assert!(d.is_ok == ok);
    let r: Result<Tok, TokE> = d.into();
    assert!(r.is_ok() == ok);
    match &r {
        Ok(t) => assert!(live(t.id)),
        Err(t) => assert!(live(t.inner.id)),
    }
    drop(r);
    assert_each_dropped_once();
    kani::cover!(ok);
    kani::cover!(!ok);
}

#[kani::proof]
#[kani::unwind(10)]
fn result_drop_once() {
    let ok: bool = kani::any();
    let d: DiplomatResult<Tok, TokE> = if ok { Ok(Tok::new()) } else { Err(TokE::new()) }.into();
    drop(d);
    assert_each_dropped_once();
}

#[kani::proof]
#[kani::unwind(10)]
fn result_clone_once() {
    let ok: bool = kani::any();
    let d: DiplomatResult<Tok, TokE> = if ok { Ok(Tok::new()) } else { Err(TokE::new()) }.into();
    let c = d.clone();
    assert!(c.is_ok == ok);
    let first: bool = kani::any();
    if first {
        drop(d);
        let r: Result<Tok, TokE> = c.into();
        drop(r);
    } else {
        drop(c);
        let r: Result<Tok, TokE> = d.into();
        drop(r);
    }
    assert_each_dropped_once();
}

enum OH {
    Std(Option<Tok>),
    Dip(DiplomatOption<Tok>),
    Conv(Option<Tok2>),
    Gone,
}

fn opt_step(h: OH, op: u8, some: bool) -> OH {
    match (h, op) {
        (OH::Std(o), 0) => {
            assert!(o.is_some() == some);
            OH::Dip(o.into())
        }
        (OH::Dip(d), 1) => {
            assert!(d.is_ok == some, "C10: is_ok must be true exactly for Some");
            OH::Std(d.into_option())
        }
        (OH::Dip(d), 2) => {
            let o: Option<Tok> = d.into();
            assert!(o.is_some() == some);
            OH::Std(o)
        }
        (OH::Dip(d), 3) => {
            let o: Option<Tok2> = d.into_converted_option();
            assert!(o.is_some() == some);
            OH::Conv(o)
        }
        (OH::Dip(d), 4) => {
            let c = d.clone();
            assert!(c.is_ok == d.is_ok);
            if kani::any() {
                drop(d);
                OH::Dip(c)
            } else {
                drop(c);
                OH::Dip(d)
            }
        }
        (OH::Dip(d), 5) => {
            match d.as_ref() {
                Ok(t) => {
                    assert!(some);
                    assert!(live(t.id));
                }
                Err(_) => assert!(!some),
            }
            OH::Dip(d)
        }
        (h, 6) => {
            drop(h);
            OH::Gone
        }
        (h, _) => h,
    }
}

#[kani::proof]
#[kani::unwind(10)]
fn option_tok_sequence() {
    let some: bool = kani::any();
    let mut h = OH::Std(if some { Some(Tok::new()) } else { None });
    let mut i = 0;
    while i < STEPS {
        let op: u8 = kani::any();
        kani::assume(op < 7);
        h = opt_step(h, op, some);
        i += 1;
    }
    kani::cover!(matches!(h, OH::Std(_)));
    kani::cover!(matches!(h, OH::Dip(_)));
    kani::cover!(matches!(h, OH::Conv(_)));
    drop(h);
    assert_each_dropped_once();
}

#[kani::proof]
#[kani::unwind(10)]
fn option_into_option_once() {
    let some: bool = kani::any();
    let d: DiplomatOption<Tok> = if some { Some(Tok::new()) } else { None }.into();
    assert!(d.is_ok == some);
    let which: u8 = kani::any();
    kani::assume(which < 3);
    match which {
        0 => {
            let o = d.into_option();
            assert!(o.is_some() == some);
            if let Some(t) = &o {
                assert!(live(t.id));
            }
        }
        1 => {
            let o: Option<Tok> = d.into();
            assert!(o.is_some() == some);
        }
        _ => {
            let o: Option<Tok2> = d.into_converted_option();
            assert!(o.is_some() == some);
            if let Some(t) = &o {
                assert!(live(t.0.id));
            }
        }
    }
    assert_each_dropped_once();
}

// ---- asymmetric payloads: one arm plain data, the other owning --------------------------------------------
// (Drop / Clone / conversions must select the arm by `is_ok` alone, whatever drop glue the two types have)

/// plain-data arm with a bit pattern that is neither a valid pointer nor a small counter
#[derive(Clone, Copy, PartialEq)]
#[repr(C)]
pub struct Plain(pub u64);

macro_rules! asym_harnesses {
    ($modname:ident, $T:ty, $E:ty, $mk_ok:expr, $mk_err:expr) => {
        mod $modname {
            use super::*;

            #[kani::proof]
            #[kani::unwind(10)]
            fn asym_drop_once() {
                let ok: bool = kani::any();
                let d: DiplomatResult<$T, $E> = if ok { Ok($mk_ok) } else { Err($mk_err) }.into();
                assert!(d.is_ok == ok);
                drop(d);
                assert_each_dropped_once();
                kani::cover!(ok);
                kani::cover!(!ok);
            }

            #[kani::proof]
            #[kani::unwind(10)]
            fn asym_clone_convert_drop() {
                let ok: bool = kani::any();
                let d: DiplomatResult<$T, $E> = if ok { Ok($mk_ok) } else { Err($mk_err) }.into();
                let c = d.clone();
                assert!(c.is_ok == ok);
                let first: bool = kani::any();
                if first {
                    drop(d);
                    let r: Result<$T, $E> = c.into();
                    assert!(r.is_ok() == ok);
                    drop(r);
                } else {
                    drop(c);
                    let r: Result<$T, $E> = d.into();
                    assert!(r.is_ok() == ok);
                    drop(r);
                }
                assert_each_dropped_once();
                kani::cover!(ok && first);
                kani::cover!(!ok && !first);
            }
        }
    };
}
asym_harnesses!(c03_asym_plain_tok, Plain, TokE, Plain(0xDEAD_BEEF_0BAD_F00D), TokE::new());
asym_harnesses!(c03_asym_unit_tok, (), Tok, (), Tok::new());
asym_harnesses!(c03_asym_tok_plain, Tok, Plain, Tok::new(), Plain(0xDEAD_BEEF_0BAD_F00D));
asym_harnesses!(c03_asym_tok_unit, TokE, (), TokE::new(), ());
