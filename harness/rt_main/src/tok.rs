//! Drop-counting payload used by the C03/C10 harnesses. `cell` makes a double drop a double free
//! for CBMC as well as a counter mismatch.
use alloc::boxed::Box;

pub const MAXTOK: usize = 8;
pub static mut DROPS: [u8; MAXTOK] = [0; MAXTOK];
pub static mut CREATED: usize = 0;

pub struct Tok {
    pub id: usize,
    pub cell: Box<u8>,
}

impl Tok {
    pub fn new() -> Tok {
        unsafe {
            let id = CREATED;
            assert!(id < MAXTOK, "harness: too many tokens");
            CREATED += 1;
            Tok { id, cell: Box::new(id as u8) }
        }
    }
}

impl Clone for Tok {
    fn clone(&self) -> Tok {
        Tok::new()
    }
}

impl Drop for Tok {
    fn drop(&mut self) {
        unsafe {
            DROPS[self.id] += 1;
        }
    }
}

/// Error-arm payload: a different type with a different layout (the counted token does not sit at
/// offset 0), so that dropping the wrong union arm cannot go unnoticed.
#[repr(C)]
pub struct TokE {
    pub tag: u64,
    pub inner: Tok,
}
impl TokE {
    pub fn new() -> TokE {
        TokE { tag: 0xE0E0_E0E0_E0E0_E0E0, inner: Tok::new() }
    }
}
impl Clone for TokE {
    fn clone(&self) -> TokE {
        TokE::new()
    }
}

/// A second payload type, for `into_converted_option::<Tok2>`.
pub struct Tok2(pub Tok);
impl From<Tok> for Tok2 {
    fn from(t: Tok) -> Tok2 {
        Tok2(t)
    }
}

/// Every token created so far has been dropped exactly once, nothing else was touched.
pub fn assert_each_dropped_once() {
    unsafe {
        let mut i = 0;
        while i < MAXTOK {
            if i < CREATED {
                assert!(DROPS[i] == 1, "C03: payload not dropped exactly once");
            } else {
                assert!(DROPS[i] == 0);
            }
            i += 1;
        }
    }
}

pub fn live(id: usize) -> bool {
    unsafe { DROPS[id] == 0 }
}
