//! E1: the real diplomat-runtime source files (lib.rs and the modules it declares), included by path so that
//! private items are reachable without any hook in /repo. Harnesses live in the sibling modules.
#![allow(unused, clippy::all)]
#![cfg_attr(not(kani), no_std)]
// (`extern crate alloc;` comes with the included root)
#[cfg(not(kani))]
extern crate std;

// the runtime's own crate root (lib.rs) with its `mod x;` lines pointed at /repo/runtime/src/x.rs; regenerated on every run
include!("../../../cache/gen/rt_root.rs");

#[cfg(kani)]
mod tok;
#[cfg(kani)]
mod c16_slices;
#[cfg(kani)]
mod c03_result;
#[cfg(kani)]
mod c03_owned;
#[cfg(kani)]
mod c03_layout;
#[cfg(kani)]
mod c10_result;
#[cfg(kani)]
mod c12_write;
#[cfg(all(kani, feature = "cppwriter"))]
mod cpp_string_model;
#[cfg(all(kani, feature = "cppwriter"))]
mod c12_cpp_writer;

// C01 / C12: the runtime prototypes of the generated diplomat_runtime.h (generated per run by lib/rtprotos.py)
#[cfg(all(kani, feature = "rtprotos"))]
#[path = "../../../cache/gen/rt_protos_gen.rs"]
mod rt_protos;

#[cfg(all(kani, test))]
mod checking_alloc;
#[cfg(all(kani, test))]
#[global_allocator]
static CHECKING_ALLOC: checking_alloc::CheckingAlloc = checking_alloc::CheckingAlloc;
