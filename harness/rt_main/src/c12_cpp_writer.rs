//! C12, C++ half: the std::string-backed writer of the generated `diplomat_runtime.hpp`. The three
//! functions `_flush`, `_grow`, `WriteFromString` are translated statement by statement from the file
//! the tool generates on this run (lib/cppwriter.py -> cache/gen/cpp_writer_gen.rs) and drive the *real*
//! Rust `write_str`; `std::string` is the model in cpp_string_model.rs.
use crate::c12_write::WMirror;
use crate::cpp_string_model::StdString;
use crate::write::DiplomatWrite;
use core::ffi::c_void;
use core::fmt::Write;

#[path = "../../../cache/gen/cpp_writer_gen.rs"]
mod generated;

#[cfg(not(feature = "thorough"))]
const K: usize = 2;
#[cfg(feature = "thorough")]
const K: usize = 3;
const L: usize = 3;

#[kani::proof]
#[kani::unwind(12)]
fn cpp_string_writer_returns_exactly_what_rust_wrote() {
    let cap0: usize = kani::any();
    kani::assume(cap0 <= 2); // small-string capacity of the (empty) output string
    let mut out = StdString::new_empty(cap0);
    let wm: WMirror = unsafe { generated::WriteFromString(&mut out) };
    let mut w: DiplomatWrite = unsafe { core::mem::transmute(wm) };
    let chunks: [[u8; L]; K] = kani::any();
    let lens: [usize; K] = kani::any();
    let mut exp = [0u8; K * L];
    let mut exp_len = 0;
    let mut c = 0;
    while c < K {
        kani::assume(lens[c] <= L);
        let mut j = 0;
        while j < L {
            kani::assume(chunks[c][j] < 0x80 && chunks[c][j] != 0);
            j += 1;
        }
        let s = unsafe { core::str::from_utf8_unchecked(&chunks[c][..lens[c]]) };
        let _ = w.write_str(s);
        let mut j = 0;
        while j < lens[c] {
            exp[exp_len + j] = chunks[c][j];
            j += 1;
        }
        exp_len += lens[c];
        c += 1;
    }
    w.flush();
    assert!(out.length() == exp_len, "C12: the C++ string's length differs from what Rust wrote");
    let mut j = 0;
    while j < exp_len {
        assert!(out.byte(j) == exp[j], "C12: the C++ string's content differs from what Rust wrote");
        j += 1;
    }
    kani::cover!(exp_len == K * L);
    kani::cover!(exp_len > cap0 + 2 && lens[K - 1] > 0);
    out.destroy();
}
