//! Native replay support (compiled only for `cargo kani playback`, i.e. cfg(all(kani, test))):
//! a global allocator that aborts when memory is released with a layout different from the one it
//! was allocated with. Kani checks this symbolically ("rust_dealloc must be called on an object whose
//! allocated size matches its layout"); neither glibc nor valgrind notice it natively, so without this
//! allocator such counterexamples would not reproduce.
use std::alloc::{GlobalAlloc, Layout, System};

pub struct CheckingAlloc;

const HDR: usize = 32;

unsafe impl GlobalAlloc for CheckingAlloc {
    unsafe fn alloc(&self, layout: Layout) -> *mut u8 {
        let h = if layout.align() > HDR { layout.align() } else { HDR };
        let total = Layout::from_size_align_unchecked(layout.size() + h, if layout.align() > 16 { layout.align() } else { 16 });
        let base = System.alloc(total);
        if base.is_null() {
            return base;
        }
        let p = base.add(h);
        *(p.sub(8) as *mut usize) = layout.size();
        *(p.sub(16) as *mut usize) = layout.align();
        *(p.sub(24) as *mut usize) = 0xA110_C8ED;
        p
    }
    unsafe fn dealloc(&self, p: *mut u8, layout: Layout) {
        let size = *(p.sub(8) as *const usize);
        let align = *(p.sub(16) as *const usize);
        let magic = *(p.sub(24) as *const usize);
        if magic != 0xA110_C8ED {
            eprintln!("checking allocator: free of a pointer that was not allocated (or double free)");
            std::process::abort();
        }
        if size != layout.size() || align != layout.align() {
            eprintln!(
                "checking allocator: memory allocated with size {} align {} is released with size {} align {}",
                size,
                align,
                layout.size(),
                layout.align()
            );
            std::process::abort();
        }
        *(p.sub(24) as *mut usize) = 0xDEAD;
        let h = if layout.align() > HDR { layout.align() } else { HDR };
        let total = Layout::from_size_align_unchecked(layout.size() + h, if layout.align() > 16 { layout.align() } else { 16 });
        System.dealloc(p.sub(h), total);
    }
}
