//! C03 (runtime half): DiplomatOwnedSlice releases its buffer and its elements exactly once;
//! DiplomatCallback runs its destructor exactly once; Rust-owned writers are freed exactly once.
use crate::callback::DiplomatCallback;
use crate::slices::*;
use crate::tok::*;
use crate::write::*;
use alloc::boxed::Box;
use alloc::vec::Vec;
use core::ffi::c_void;

#[repr(C)]
#[derive(Clone, Copy)]
struct RawView<T> {
    ptr: *mut T,
    len: usize,
}

const N: usize = 3;
const NT: usize = 3;

fn tok_box(len: usize) -> Box<[Tok]> {
    // concrete shapes selected by a symbolic length (a Vec push/realloc loop over drop-glue
    // elements costs CBMC minutes; the allocation is the same Box<[Tok]> either way)
    match len {
        0 => Box::new([]) as Box<[Tok]>,
        1 => Box::new([Tok::new()]) as Box<[Tok]>,
        2 => Box::new([Tok::new(), Tok::new()]) as Box<[Tok]>,
        _ => Box::new([Tok::new(), Tok::new(), Tok::new()]) as Box<[Tok]>,
    }
}

macro_rules! owned_tok_path {
    ($name:ident, $path:expr) => {
        #[kani::proof]
        #[kani::unwind(10)]
        fn $name() {
            let len: usize = kani::any();
            kani::assume(len <= NT);
            let b = tok_box(len);
            let mut o: DiplomatOwnedSlice<Tok> = b.into();
            match $path {
                0 => drop(o),
                1 => {
                    let back: Box<[Tok]> = o.into();
                    assert!(back.len() == len);
                    let mut i = 0;
                    while i < len {
                        assert!(live(back[i].id) && back[i].id == i);
                        i += 1;
                    }
                    drop(back);
                }
                2 => {
                    let l = (&*o).len();
                    assert!(l == len);
                    let m = &mut *o;
                    if len > 0 {
                        // replacing an element drops the old one exactly once
                        m[0] = Tok::new();
                    }
                    drop(o);
                }
                _ => {
                    // through Option<DiplomatOwnedSlice>: what the macro does for Option<Box<[T]>> params
                    let d: crate::result::DiplomatOption<DiplomatOwnedSlice<Tok>> = Some(o).into();
                    let oo: Option<DiplomatOwnedSlice<Tok>> = d.into();
                    let ob: Option<Box<[Tok]>> = oo.map(Into::into);
                    assert!(ob.is_some());
                    drop(ob);
                }
            }
            assert_each_dropped_once();
            kani::cover!(len == 0);
            kani::cover!(len == NT);
        }
    };
}
owned_tok_path!(owned_slice_tok_drop, 0);
owned_tok_path!(owned_slice_tok_into_box, 1);
owned_tok_path!(owned_slice_tok_deref_mut, 2);
owned_tok_path!(owned_slice_tok_via_option, 3);

macro_rules! owned_prim {
    ($name:ident, $t:ty) => {
        #[kani::proof]
        #[kani::unwind(6)]
        fn $name() {
            let len: usize = kani::any();
            kani::assume(len <= N);
            let arr: [$t; N] = kani::any();
            let b: Box<[$t]> = match len {
                0 => Box::new([]) as Box<[$t]>,
                1 => Box::new([arr[0]]) as Box<[$t]>,
                2 => Box::new([arr[0], arr[1]]) as Box<[$t]>,
                _ => Box::new(arr) as Box<[$t]>,
            };
            let o: DiplomatOwnedSlice<$t> = b.into();
            let path: u8 = kani::any();
            kani::assume(path < 3);
            match path {
                0 => drop(o),
                1 => {
                    let b: Box<[$t]> = o.into();
                    drop(b);
                }
                _ => {
                    let d: crate::result::DiplomatOption<DiplomatOwnedSlice<$t>> = Some(o).into();
                    let oo: Option<Box<[$t]>> = d.into_converted_option();
                    drop(oo);
                }
            }
            // CBMC's deallocation / double-free / leak checks are the assertion here
        }
    };
}
owned_prim!(owned_u8_paths, u8);
owned_prim!(owned_u16_paths, u16);
owned_prim!(owned_u64_paths, u64);

#[kani::proof]
#[kani::unwind(6)]
fn owned_str_paths() {
    let len: usize = kani::any();
    kani::assume(len <= N);
    let mut v: Vec<u8> = Vec::with_capacity(len);
    let mut i = 0;
    while i < len {
        let c: u8 = kani::any();
        kani::assume(c < 0x80);
        v.push(c);
        i += 1;
    }
    let s: Box<str> = unsafe { alloc::string::String::from_utf8_unchecked(v) }.into_boxed_str();
    let o: DiplomatOwnedUTF8StrSlice = s.into();
    if kani::any() {
        drop(o);
    } else {
        let b: Box<str> = o.into();
        assert!(b.len() == len);
        drop(b);
    }
}

// ---- callbacks ---------------------------------------------------------------------------------

static mut DESTRUCTOR_CALLS: u32 = 0;
static mut DESTRUCTOR_DATA: *mut c_void = core::ptr::null_mut();
static mut STATE_FREED: u32 = 0;
unsafe extern "C" fn destructor(data: *mut c_void) {
    DESTRUCTOR_CALLS += 1;
    DESTRUCTOR_DATA = data;
    // the foreign side frees its closure state here (a NULL cookie means "no state", which is legal:
    // `data` is an opaque cookie owned by the foreign side)
    if !data.is_null() {
        drop(Box::from_raw(data as *mut u32));
        STATE_FREED += 1;
    }
}
unsafe extern "C" fn run_cb(_data: *mut c_void, _: ...) -> i32 {
    0
}

#[repr(C)]
struct RawCallback {
    data: *mut c_void,
    run_callback: unsafe extern "C" fn(*mut c_void, ...) -> i32,
    destructor: Option<unsafe extern "C" fn(*mut c_void)>,
}

#[kani::proof]
#[kani::unwind(4)]
fn callback_destructor_once() {
    let with_destructor: bool = kani::any();
    let null_cookie: bool = kani::any();
    let state = if null_cookie { core::ptr::null_mut() } else { Box::into_raw(Box::new(kani::any::<u32>())) as *mut c_void };
    let raw = RawCallback {
        data: state,
        run_callback: run_cb,
        destructor: if with_destructor { Some(destructor) } else { None },
    };
    assert!(core::mem::size_of::<RawCallback>() == core::mem::size_of::<DiplomatCallback<i32>>());
    let cb: DiplomatCallback<i32> = unsafe { core::mem::transmute(raw) };
    // moving it around must not run the destructor
    let moved = cb;
    let boxed = Box::new(moved);
    unsafe { assert!(DESTRUCTOR_CALLS == 0) };
    drop(boxed);
    unsafe {
        if with_destructor {
            assert!(DESTRUCTOR_CALLS == 1, "C03: callback destructor must run exactly once");
            assert!(DESTRUCTOR_DATA == state);
        } else {
            assert!(DESTRUCTOR_CALLS == 0);
            if !null_cookie {
                drop(Box::from_raw(state as *mut u32));
            }
        }
    }
    kani::cover!(with_destructor && null_cookie);
    kani::cover!(with_destructor && !null_cookie);
}

// ---- Rust-owned writer ---------------------------------------------------------------------------

#[kani::proof]
#[kani::unwind(8)]
fn buffer_write_create_destroy() {
    use core::fmt::Write;
    let cap: usize = kani::any();
    kani::assume(cap <= 4);
    let w = diplomat_buffer_write_create(cap);
    let grow: bool = kani::any();
    if grow {
        // force at least one growth through the real Vec::reserve path
        let _ = unsafe { &mut *w }.write_str("abcdef");
        assert!(diplomat_buffer_write_len(unsafe { &*w }) == 6);
    }
    unsafe { diplomat_buffer_write_destroy(w) };
    // leak / double free / invalid free are CBMC checks
}

