//! C10 (runtime half): the wire encoding of DiplomatResult / DiplomatOption as a C caller sees it:
//! { union { ok; err; }, bool is_ok }, is_ok true exactly for Ok/Some, unit arms occupy no payload,
//! conversion in both directions is the identity on plain-data payloads.
use crate::result::*;
use core::mem::{align_of, size_of};

#[repr(C)]
#[derive(Clone, Copy)]
union RawU<T: Copy, E: Copy> {
    ok: T,
    err: E,
}
#[repr(C)]
#[derive(Clone, Copy)]
struct RawRes<T: Copy, E: Copy> {
    value: RawU<T, E>,
    is_ok: bool,
}

#[repr(C)]
#[derive(Clone, Copy, PartialEq, Eq, kani::Arbitrary)]
pub struct Pair {
    a: u8,
    b: u32,
}
#[repr(C)]
#[derive(Clone, Copy, PartialEq, Eq, kani::Arbitrary)]
pub struct Wide {
    a: u64,
    b: i16,
}

/// payload types for which the all-zero bit pattern is *not* a value: an absent option still has to be representable
#[repr(C)]
#[derive(Clone, Copy, PartialEq, Eq, kani::Arbitrary)]
pub enum NoZero {
    Low = 1,
    High = 2,
}
#[repr(C)]
#[derive(Clone, Copy, PartialEq, Eq, kani::Arbitrary)]
pub struct Tagged {
    t: NoZero,
    n: u16,
}

macro_rules! wire {
    ($name:ident, $t:ty, $e:ty) => {
        #[kani::proof]
        #[kani::unwind(4)]
        fn $name() {
            assert!(size_of::<DiplomatResult<$t, $e>>() == size_of::<RawRes<$t, $e>>());
            assert!(align_of::<DiplomatResult<$t, $e>>() == align_of::<RawRes<$t, $e>>());
            // Rust -> wire
            let ok: bool = kani::any();
            let t: $t = kani::any();
            let e: $e = kani::any();
            let r: Result<$t, $e> = if ok { Ok(t) } else { Err(e) };
            let d: DiplomatResult<$t, $e> = r.into();
            assert!(d.is_ok == ok);
            let raw: RawRes<$t, $e> = unsafe { core::mem::transmute_copy(&d) };
            assert!(raw.is_ok == ok);
            unsafe {
                if ok {
                    assert!(raw.value.ok == t);
                } else {
                    assert!(raw.value.err == e);
                }
            }
            match d.as_ref() {
                Ok(x) => assert!(ok && *x == t),
                Err(x) => assert!(!ok && *x == e),
            }
            let c = d.clone();
            assert!(c.is_ok == ok);
            let back: Result<$t, $e> = d.into();
            assert!(back == r);
            let cback: Result<$t, $e> = c.into();
            assert!(cback == r);
            // wire -> Rust: a value built by the foreign side
            let raw2 = if ok {
                RawRes::<$t, $e> { value: RawU { ok: t }, is_ok: true }
            } else {
                RawRes::<$t, $e> { value: RawU { err: e }, is_ok: false }
            };
            let d2: DiplomatResult<$t, $e> = unsafe { core::mem::transmute_copy(&raw2) };
            let r2: Result<$t, $e> = d2.into();
            assert!(r2 == r);
            kani::cover!(ok);
            kani::cover!(!ok);
        }
    };
}

wire!(wire_u8_u8, u8, u8);
wire!(wire_u64_u8, u64, u8);
wire!(wire_u8_i64, u8, i64);
wire!(wire_i32_unit, i32, ());
wire!(wire_unit_u16, (), u16);
wire!(wire_unit_unit, (), ());
wire!(wire_pair_wide, Pair, Wide);
wire!(wire_wide_unit, Wide, ());
wire!(wire_bool_pair, bool, Pair);
wire!(wire_nozero_tagged, NoZero, Tagged);
wire!(wire_unit_nozero, (), NoZero);

macro_rules! wire_opt {
    ($name:ident, $t:ty) => {
        #[kani::proof]
        #[kani::unwind(4)]
        fn $name() {
            assert!(size_of::<DiplomatOption<$t>>() == size_of::<RawRes<$t, ()>>());
            let some: bool = kani::any();
            let t: $t = kani::any();
            let o: Option<$t> = if some { Some(t) } else { None };
            let d: DiplomatOption<$t> = o.into();
            assert!(d.is_ok == some);
            let raw: RawRes<$t, ()> = unsafe { core::mem::transmute_copy(&d) };
            assert!(raw.is_ok == some);
            if some {
                unsafe { assert!(raw.value.ok == t) };
            }
            let back = d.into_option();
            assert!(back == o);
            let raw2 = if some {
                RawRes::<$t, ()> { value: RawU { ok: t }, is_ok: true }
            } else {
                // payload bytes of an absent option are whatever the caller left there
                RawRes::<$t, ()> { value: RawU { ok: kani::any() }, is_ok: false }
            };
            let d2: DiplomatOption<$t> = unsafe { core::mem::transmute_copy(&raw2) };
            let o2: Option<$t> = d2.into();
            assert!(o2 == o);
            let d3: DiplomatOption<$t> = unsafe { core::mem::transmute_copy(&raw2) };
            let o3: Option<u64> = d3.into_converted_option::<W64>().map(|w| w.0);
            assert!(o3.is_some() == some);
            kani::cover!(some);
            kani::cover!(!some);
        }
    };
}
pub struct W64(u64);
impl From<u8> for W64 { fn from(x: u8) -> W64 { W64(x as u64) } }
impl From<u32> for W64 { fn from(x: u32) -> W64 { W64(x as u64) } }
impl From<i64> for W64 { fn from(x: i64) -> W64 { W64(x as u64) } }
impl From<bool> for W64 { fn from(x: bool) -> W64 { W64(x as u64) } }
impl From<Pair> for W64 { fn from(x: Pair) -> W64 { W64(x.b as u64) } }
impl From<()> for W64 { fn from(_: ()) -> W64 { W64(0) } }
impl From<NoZero> for W64 { fn from(x: NoZero) -> W64 { W64(x as u64) } }
impl From<Tagged> for W64 { fn from(x: Tagged) -> W64 { W64(x.n as u64) } }
impl From<core::num::NonZeroU16> for W64 { fn from(x: core::num::NonZeroU16) -> W64 { W64(x.get() as u64) } }
wire_opt!(wire_opt_nozero, NoZero);
wire_opt!(wire_opt_tagged, Tagged);
wire_opt!(wire_opt_nonzero_u16, core::num::NonZeroU16);
wire_opt!(wire_opt_u8, u8);
wire_opt!(wire_opt_u32, u32);
wire_opt!(wire_opt_i64, i64);
wire_opt!(wire_opt_bool, bool);
wire_opt!(wire_opt_pair, Pair);
wire_opt!(wire_opt_unit, ());

#[kani::proof]
fn unit_arms_occupy_no_payload() {
    assert!(size_of::<DiplomatOption<()>>() == 1);
    assert!(size_of::<DiplomatResult<(), ()>>() == 1);
    assert!(size_of::<DiplomatResult<u8, ()>>() == 2);
    assert!(size_of::<DiplomatResult<(), u32>>() == 8);
    assert!(size_of::<DiplomatOption<u64>>() == 16);
}

// ---- the runtime's own readers of `is_ok` -------------------------------------------------------------
// A record whose is_ok is true holds (only) the ok arm, whatever the two payload types are: Drop, Clone and the
// conversions must decode it that way. The owning arm is a drop-counting token, the other arm plain data.
mod is_ok_selects_the_arm {
    use crate::result::*;
    use crate::tok::*;

    #[derive(Clone, Copy, PartialEq)]
    #[repr(C)]
    pub struct Plain(pub u64);

    #[kani::proof]
    #[kani::unwind(10)]
    fn plain_ok_owning_err() {
        let ok: bool = kani::any();
        let d: DiplomatResult<Plain, TokE> = if ok { Ok(Plain(0xDEAD_BEEF_0BAD_F00D)) } else { Err(TokE::new()) }.into();
        assert!(d.is_ok == ok);
        let c = d.clone();
        assert!(c.is_ok == ok);
        match c.as_ref() {
            Ok(p) => assert!(ok && p.0 == 0xDEAD_BEEF_0BAD_F00D),
            Err(_) => assert!(!ok),
        }
        drop(c);
        drop(d);
        assert_each_dropped_once();
        kani::cover!(ok);
        kani::cover!(!ok);
    }

    #[kani::proof]
    #[kani::unwind(10)]
    fn owning_ok_unit_err() {
        let ok: bool = kani::any();
        let d: DiplomatResult<Tok, ()> = if ok { Ok(Tok::new()) } else { Err(()) }.into();
        assert!(d.is_ok == ok);
        let c = d.clone();
        assert!(c.is_ok == ok);
        drop(d);
        let r: Result<Tok, ()> = c.into();
        assert!(r.is_ok() == ok);
        drop(r);
        assert_each_dropped_once();
        kani::cover!(ok);
        kani::cover!(!ok);
    }

    #[kani::proof]
    #[kani::unwind(10)]
    fn unit_ok_owning_err() {
        let ok: bool = kani::any();
        let d: DiplomatResult<(), Tok> = if ok { Ok(()) } else { Err(Tok::new()) }.into();
        assert!(d.is_ok == ok);
        let c = d.clone();
        drop(d);
        drop(c);
        assert_each_dropped_once();
        kani::cover!(ok);
        kani::cover!(!ok);
    }
}
