//! E4 (C08): the JS back end's struct layout routine, the real /repo/tool/src/js/layout.rs
//! #[path]-included, against a reference written from the C layout rules (wasm32 sizes) and
//! docs/wasm_abi_quirks.md ("typed padding": the padding after a field is counted in units of that
//! field's alignment).
#![allow(unused)]
#[path = "/repo/tool/src/js/layout.rs"]
mod layout;

#[cfg(kani)]
mod proofs {
    use super::layout::{self, ScalarCount};
    use core::mem::MaybeUninit;
    use diplomat_core::hir::{
        self, EnumPath, Everywhere, FloatType, IntSizeType, IntType, PrimitiveType, Slice, Type, TypeContext,
    };

    #[cfg(not(feature = "thorough"))]
    const NF: usize = 4;
    #[cfg(feature = "thorough")]
    const NF: usize = 5;

    /// wasm32 repr(C) facts about one field kind: (size, align, scalar count or None for "memory")
    #[derive(Clone, Copy)]
    struct R {
        size: usize,
        align: usize,
        scalars: Option<usize>,
    }

    const NPRIM: u8 = 15;
    fn prim(k: u8) -> (PrimitiveType, R) {
        let s = |size, align| R { size, align, scalars: Some(1) };
        match k {
            0 => (PrimitiveType::Bool, s(1, 1)),
            1 => (PrimitiveType::Int(IntType::U8), s(1, 1)),
            2 => (PrimitiveType::Int(IntType::I8), s(1, 1)),
            3 => (PrimitiveType::Byte, s(1, 1)),
            4 => (PrimitiveType::Int(IntType::I16), s(2, 2)),
            5 => (PrimitiveType::Int(IntType::U16), s(2, 2)),
            6 => (PrimitiveType::Int(IntType::I32), s(4, 4)),
            7 => (PrimitiveType::Int(IntType::U32), s(4, 4)),
            8 => (PrimitiveType::Char, s(4, 4)),
            9 => (PrimitiveType::Int(IntType::I64), s(8, 8)),
            10 => (PrimitiveType::Int(IntType::U64), s(8, 8)),
            11 => (PrimitiveType::Float(FloatType::F32), s(4, 4)),
            12 => (PrimitiveType::Float(FloatType::F64), s(8, 8)),
            13 => (PrimitiveType::IntSize(IntSizeType::Isize), s(4, 4)),
            _ => (PrimitiveType::IntSize(IntSizeType::Usize), s(4, 4)),
        }
    }

    fn enum_ty() -> Type<Everywhere> {
        // EnumId's field is private; the layout routine never looks at it
        Type::Enum(unsafe { core::mem::transmute::<usize, EnumPath>(0) })
    }

    /// kinds: 0..15 primitives, 15 enum, 16 primitive slice, 17 str slice,
    /// 18 DiplomatOption<prim>, 19 DiplomatOption<enum>, 20 DiplomatOption<DiplomatOption<prim>>
    const NKIND: u8 = 21;
    fn field(kind: u8, sub: u8) -> (Type<Everywhere>, R) {
        // `kind` is concrete in every harness (the variant), `sub` is the symbolic primitive kind
        match kind {
            0 => {
                let (p, r) = prim(sub);
                (Type::Primitive(p), r)
            }
            15 => (enum_ty(), R { size: 4, align: 4, scalars: Some(1) }),
            16 => (
                Type::Slice(Slice::Primitive(None, prim(sub).0)),
                R { size: 8, align: 4, scalars: Some(2) },
            ),
            17 => (
                Type::Slice(Slice::Str(None, hir::StringEncoding::UnvalidatedUtf8)),
                R { size: 8, align: 4, scalars: Some(2) },
            ),
            18 => {
                let (p, r) = prim(sub);
                (
                    Type::DiplomatOption(Box::new(Type::Primitive(p))),
                    R { size: r.size + r.align, align: r.align, scalars: None },
                )
            }
            19 => (
                Type::DiplomatOption(Box::new(enum_ty())),
                R { size: 8, align: 4, scalars: None },
            ),
            _ => {
                let (p, r) = prim(sub);
                (
                    Type::DiplomatOption(Box::new(Type::DiplomatOption(Box::new(Type::Primitive(p))))),
                    R { size: r.size + 2 * r.align, align: r.align, scalars: None },
                )
            }
        }
    }

    fn up(x: usize, a: usize) -> usize {
        (x + a - 1) / a * a
    }

    fn check<const N: usize>(kinds: [u8; N], subs: [u8; N]) {
        let n = N;
        let tcx_store = MaybeUninit::<TypeContext>::uninit();
        // never dereferenced for the field kinds above (CBMC would flag a read of uninitialised memory)
        let tcx: &TypeContext = unsafe { &*tcx_store.as_ptr() };
        let mut refs = [R { size: 0, align: 1, scalars: Some(0) }; N];
        let tys: [Type<Everywhere>; N] = core::array::from_fn(|i| {
            let (t, r) = field(kinds[i], subs[i]);
            refs[i] = r;
            t
        });
        // the slice length is concrete: a symbolic-length slice iterator makes CBMC time out
        let info = layout::struct_field_info(tys.iter(), tcx);
        assert!(info.fields.len() == n);
        // reference repr(C) layout, 32-bit pointers
        let mut offs = [0usize; N];
        let mut off = 0usize;
        let mut maxa = 1usize;
        let mut scal: Option<usize> = Some(0);
        let mut i = 0;
        while i < n {
            off = up(off, refs[i].align);
            offs[i] = off;
            off += refs[i].size;
            if refs[i].align > maxa {
                maxa = refs[i].align;
            }
            scal = match (scal, refs[i].scalars) {
                (Some(a), Some(b)) => Some(a + b),
                _ => None,
            };
            i += 1;
        }
        let total = up(off, maxa);
        assert!(info.struct_layout.size() == total, "C08: struct size differs from wasm32 repr(C)");
        assert!(info.struct_layout.align() == maxa, "C08: struct alignment differs from wasm32 repr(C)");
        let mut i = 0;
        while i < n {
            assert!(info.fields[i].offset == offs[i], "C08: field offset differs from wasm32 repr(C)");
            // typed padding: the gap after field i, in units of field i's alignment
            let end = offs[i] + refs[i].size;
            let next = if i + 1 < n { offs[i + 1] } else { total };
            let gap = next - end;
            let f = &info.fields[i];
            assert!(
                f.padding_count * f.padding_field_width == gap,
                "C08: padding slots after a field do not add up to the gap to the next field"
            );
            if gap != 0 {
                assert!(f.padding_field_width == refs[i].align, "C08: padding slot width must be the alignment of the preceding field");
            }
            let fs = match f.scalar_count {
                ScalarCount::Zst => Some(0),
                ScalarCount::Scalars(k) => Some(k),
                ScalarCount::Memory => None,
            };
            assert!(fs == refs[i].scalars, "C08: per-field scalar count");
            i += 1;
        }
        let ts = match info.scalar_count {
            ScalarCount::Zst => Some(0),
            ScalarCount::Scalars(k) => Some(k),
            ScalarCount::Memory => None,
        };
        assert!(ts == scal, "C08: struct scalar count (additive; unions are absorbing)");
        kani::cover!(true);
        core::mem::forget(info);
        core::mem::forget(tys);
    }

    // The variant of each position is fixed per harness (symbolic execution cannot prune the
    // `Type::Struct` arm - which recurses through the TypeContext - when the discriminant itself is
    // symbolic); the primitive kinds inside are symbolic, so one harness covers 15^k kind sequences.
    // P primitive, E enum, S primitive slice, T str slice, O DiplomatOption<prim>, Q DiplomatOption<enum>,
    // R DiplomatOption<DiplomatOption<prim>>
    const P: u8 = 0;
    const E: u8 = 15;
    const S: u8 = 16;
    const T: u8 = 17;
    const O: u8 = 18;
    const Q: u8 = 19;
    const R2: u8 = 20;

    macro_rules! layout_mask {
        ($name:ident, $n:expr, [$($k:expr),+]) => {
            layout_mask!($name, $n, [$($k),+], 7);
        };
        ($name:ident, $n:expr, [$($k:expr),+], $unwind:expr) => {
            #[kani::proof]
            #[kani::unwind($unwind)]
            fn $name() {
                let mask: [u8; $n] = [$($k),+];
                let subs: [u8; $n] = kani::any();
                let mut i = 0;
                while i < $n {
                    kani::assume(subs[i] < NPRIM);
                    i += 1;
                }
                check::<$n>(mask, subs);
            }
        };
    }
    layout_mask!(c08_layout_p, 1, [P]);
    layout_mask!(c08_layout_e, 1, [E]);
    layout_mask!(c08_layout_s, 1, [S]);
    layout_mask!(c08_layout_t, 1, [T]);
    // DiplomatOption fields own a Box<Type>: CBMC cannot keep the boxed discriminant concrete, so these
    // are checked one field at a time (sequences with option fields time out; stated as a bound)
    layout_mask!(c08_layout_o, 1, [O], 2);
    layout_mask!(c08_layout_q, 1, [Q], 2);
    // (DiplomatOption<DiplomatOption<_>> alone does not finish within 5 min at recursion bound 3: not claimed)
    layout_mask!(c08_layout_pp, 2, [P, P]);
    layout_mask!(c08_layout_sp, 2, [S, P]);
    layout_mask!(c08_layout_ps, 2, [P, S]);
    layout_mask!(c08_layout_ppp, 3, [P, P, P]);
    layout_mask!(c08_layout_pse, 3, [P, S, E]);
    layout_mask!(c08_layout_tpp, 3, [T, P, P]);
    layout_mask!(c08_layout_pppp, 4, [P, P, P, P]);
    layout_mask!(c08_layout_eppp, 4, [E, P, P, P]);
    layout_mask!(c08_layout_ppep, 4, [P, P, E, P]);
    layout_mask!(c08_layout_sppp, 4, [S, P, P, P]);
    layout_mask!(c08_layout_pspp, 4, [P, S, P, P]);
    layout_mask!(c08_layout_ppsp, 4, [P, P, S, P]);
    layout_mask!(c08_layout_ppps, 4, [P, P, P, S]);
    layout_mask!(c08_layout_ptpt, 4, [P, T, P, T]);
    #[cfg(feature = "thorough")]
    layout_mask!(c08_layout_ppppp, 5, [P, P, P, P, P]);
    #[cfg(feature = "thorough")]
    layout_mask!(c08_layout_pspep, 5, [P, S, P, E, P]);
    #[cfg(feature = "thorough")]
    layout_mask!(c08_layout_sppps, 5, [S, P, P, P, S]);

    /// primitive_size_alignment / type_size_alignment on every primitive
    #[kani::proof]
    fn c08_primitive_sizes() {
        let k: u8 = kani::any();
        kani::assume(k < NPRIM);
        let (p, r) = prim(k);
        let l = layout::primitive_size_alignment(p);
        assert!(l.size() == r.size && l.align() == r.align, "C08: primitive size/alignment for wasm32");
    }

}
