// Hand-written family member: methods that take a DiplomatWrite *and* return a value. The book only documents
// (), Result<(), E> and Option<()> for write-out methods, and the C back end drops the writer from the header for
// these shapes (see DESIGN.md 7.3), but the proc macro exports them and promises to flush every DiplomatWrite
// parameter after the body. The harnesses call the exported functions directly with a writer laid out as the
// documented repr(C) DiplomatWrite (vs::WMirror) - no C declaration is involved.
#![allow(unused, static_mut_refs, non_snake_case, non_camel_case_types, improper_ctypes_definitions, clippy::all)]
#[path = "vsupport.rs"]
pub mod vs;
pub mod hp {}
/*MIRROR*/

#[diplomat::bridge]
pub mod ffi {
    use crate::vs;
    use core::fmt::Write;
    use diplomat_runtime::DiplomatWrite;

    #[diplomat::opaque]
    pub struct Wr {
        tag: u32,
    }

    impl Wr {
        pub fn counted(&self, w: &mut DiplomatWrite) -> usize {
            let _ = w.write_str("ab");
            2
        }
        pub fn fallible_counted(&self, fail: bool, w: &mut DiplomatWrite) -> Result<u8, ()> {
            let _ = w.write_str("c");
            if fail {
                Err(())
            } else {
                Ok(1)
            }
        }
        pub fn plain(&self, w: &mut DiplomatWrite) {
            let _ = w.write_str("d");
        }
        pub fn fallible_unit(&self, fail: bool, w: &mut DiplomatWrite) -> Result<(), ()> {
            let _ = w.write_str("e");
            if fail {
                Err(())
            } else {
                Ok(())
            }
        }
    }

    #[cfg(kani)]
    unsafe fn mk_writer(buf: *mut u8) -> vs::WMirror {
        vs::WMirror { context: core::ptr::null_mut(), buf, len: 0, cap: 8, grow_failed: false, flush: vs::wm_flush, grow: vs::wm_grow }
    }

    macro_rules! flush_harness {
        ($name:ident, |$s:ident, $w:ident| $call:expr, $len:expr) => {
            #[cfg(kani)]
            #[kani::proof]
            #[kani::unwind(6)]
            fn $name() {
                unsafe {
                    let obj = Box::into_raw(Box::new(Wr { tag: kani::any() }));
                    let mut buf = [0xAAu8; 8];
                    let mut wm = mk_writer(buf.as_mut_ptr());
                    let $s: &Wr = &*obj;
                    let $w: &mut DiplomatWrite = &mut *(&mut wm as *mut vs::WMirror as *mut DiplomatWrite);
                    let _ = $call;
                    assert!(vs::FLUSHES == 1, "C12: the wrapper must flush the writer exactly once after the method returns");
                    assert!(wm.len == $len && !wm.grow_failed, "C12: writer length differs from what Rust wrote");
                    drop(Box::from_raw(obj));
                }
            }
        };
    }
    flush_harness!(c12_flush_with_value_return, |s, w| Wr_counted(s, w), 2);
    flush_harness!(c12_flush_with_result_value_return, |s, w| Wr_fallible_counted(s, kani::any(), w), 1);
    flush_harness!(c12_flush_plain, |s, w| Wr_plain(s, w), 1);
    flush_harness!(c12_flush_result_unit, |s, w| Wr_fallible_unit(s, kani::any(), w), 1);
}
