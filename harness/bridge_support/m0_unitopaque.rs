// Hand-written family member: opaque types without fields. A unit struct (`struct Session;`) and an empty-braces struct are
// zero-sized, so their Box never allocates - but they may still have a Drop impl (a guard that unregisters from global
// state), and the generated `<Type>_destroy` is the only path on which the foreign side releases them. The harnesses call
// the exported functions directly; no C declaration is involved.
#![allow(unused, static_mut_refs, non_snake_case, non_camel_case_types, improper_ctypes_definitions, clippy::all)]
#[path = "vsupport.rs"]
pub mod vs;
pub mod hp {}
/*MIRROR*/

pub static mut LIVE: i32 = 0;
pub static mut DROPPED: u32 = 0;

#[diplomat::bridge]
pub mod ffi {
    #[diplomat::opaque]
    pub struct Session;

    #[diplomat::opaque]
    pub struct Guard {}

    #[diplomat::opaque]
    pub struct Pair(pub(crate) u8, pub(crate) u8);

    impl Session {
        pub fn open() -> Box<Session> {
            unsafe { crate::LIVE += 1 };
            Box::new(Session)
        }
        pub fn ping(&self) -> u8 {
            7
        }
    }
    impl Guard {
        pub fn open() -> Box<Guard> {
            unsafe { crate::LIVE += 1 };
            Box::new(Guard {})
        }
    }
    impl Pair {
        pub fn open(a: u8) -> Box<Pair> {
            unsafe { crate::LIVE += 1 };
            Box::new(Pair(a, a))
        }
    }

    macro_rules! destroy_harness {
        ($name:ident, $open:expr, $destroy:ident) => {
            #[cfg(kani)]
            #[kani::proof]
            #[kani::unwind(4)]
            fn $name() {
                unsafe {
                    let n: u8 = kani::any();
                    kani::assume(n >= 1 && n <= 2);
                    let a = $open;
                    let b = if n == 2 { Some($open) } else { None };
                    assert!(crate::LIVE == n as i32);
                    $destroy(crate::vs::cast(a));
                    assert!(crate::LIVE == n as i32 - 1 && crate::DROPPED == 1, "C03: destroy must drop the object exactly once");
                    if let Some(b) = b {
                        $destroy(crate::vs::cast(b));
                    }
                    assert!(crate::LIVE == 0 && crate::DROPPED == n as u32, "C03: every object handed out must be dropped exactly once");
                    kani::cover!(n == 2);
                }
            }
        };
    }
    destroy_harness!(c03_unit_struct_opaque_destroy, Session_open(), Session_destroy);
    destroy_harness!(c03_empty_struct_opaque_destroy, Guard_open(), Guard_destroy);
    destroy_harness!(c03_tuple_struct_opaque_destroy, Pair_open(3), Pair_destroy);
}

impl Drop for ffi::Session {
    fn drop(&mut self) {
        unsafe {
            LIVE -= 1;
            DROPPED += 1;
        }
    }
}
impl Drop for ffi::Guard {
    fn drop(&mut self) {
        unsafe {
            LIVE -= 1;
            DROPPED += 1;
        }
    }
}
impl Drop for ffi::Pair {
    fn drop(&mut self) {
        unsafe {
            LIVE -= 1;
            DROPPED += 1;
        }
    }
}
