//! Observation support for generated bridge crates (E2). Hand-written, copied verbatim.
#![allow(unused, static_mut_refs)]

pub const LOGN: usize = 72;

#[derive(Clone, Copy)]
pub struct Log {
    pub v: [i128; LOGN],
    pub n: usize,
}

impl Log {
    pub const fn new() -> Log {
        Log { v: [0; LOGN], n: 0 }
    }
    #[inline(never)]
    pub fn push(&mut self, x: i128) {
        assert!(self.n < LOGN, "harness: log overflow");
        self.v[self.n] = x;
        self.n += 1;
    }
    pub fn clear(&mut self) {
        self.n = 0;
    }
}

/// what the method body saw (arguments, flattened to leaves)
pub static mut ARG_LOG: Log = Log::new();
/// what the method body returned (flattened to leaves)
pub static mut RET_LOG: Log = Log::new();
/// what a foreign callback saw / what the body passed to it
pub static mut CB_SEEN: Log = Log::new();
pub static mut CB_SENT: Log = Log::new();
pub static mut CALLS: u32 = 0;
pub static mut DROPS: u32 = 0;
pub static mut LAST_DROPPED_TAG: u32 = 0;
pub static mut FLUSHES: u32 = 0;
pub static mut CB_CALLS: u32 = 0;
pub static mut CB_DESTRUCTS: u32 = 0;
pub static mut CB_RET: u64 = 0;
pub static mut CB_COOKIE: usize = 0;

/// bytes a method body wrote into its DiplomatWrite
pub static mut WROTE: [u8; 8] = [0; 8];
pub static mut WROTE_LEN: usize = 0;
pub fn note_written(b: &[u8]) {
    unsafe {
        let mut i = 0;
        while i < b.len() {
            assert!(WROTE_LEN < 8, "harness: WROTE overflow");
            WROTE[WROTE_LEN] = b[i];
            WROTE_LEN += 1;
            i += 1;
        }
    }
}

/// "ab\u{e9}": every prefix of length 0, 1, 2, 4 is valid UTF-8. One source object on purpose: CBMC 6.11 mis-models
/// memcpy from a pointer that may point to one of several string literals of different sizes (bytes after the first read 0xFF).
pub static MULTIBYTE: [u8; 4] = [0x61, 0x62, 0xC3, 0xA9];
/// UTF-16 code units / u32 values for borrowed callback arguments (single source objects, as above)
pub static WIDE: [u16; 4] = [0x0068, 0xD83D, 0xDE00, 0x0021];
pub static QUADS: [u32; 4] = [7, 0xFFFF_FFFE, 0x8000_0000, 3];

pub const NSEED: usize = 48;
pub static mut SEED: [u64; NSEED] = [0; NSEED];
pub static mut SEED_I: usize = 0;

/// next value of the symbolic return seed
pub fn seed() -> u64 {
    unsafe {
        let i = SEED_I;
        assert!(i < NSEED, "harness: seed overflow");
        SEED_I = i + 1;
        SEED[i]
    }
}

pub fn arg_log() -> &'static mut Log {
    unsafe { &mut *core::ptr::addr_of_mut!(ARG_LOG) }
}
pub fn ret_log() -> &'static mut Log {
    unsafe { &mut *core::ptr::addr_of_mut!(RET_LOG) }
}
pub fn cb_seen() -> &'static mut Log {
    unsafe { &mut *core::ptr::addr_of_mut!(CB_SEEN) }
}
pub fn cb_sent() -> &'static mut Log {
    unsafe { &mut *core::ptr::addr_of_mut!(CB_SENT) }
}

/// leaf-wise comparison; `what` ends up in the failing check's description
#[inline(never)]
pub fn same(a: &Log, b: &Log) -> bool {
    if a.n != b.n {
        return false;
    }
    let mut i = 0;
    while i < a.n {
        if a.v[i] != b.v[i] {
            return false;
        }
        i += 1;
    }
    true
}

/// Reinterpret a value of the foreign (header-derived) type as the type the macro compiled.
/// Size and alignment must agree; the assertion text is what a violation reports.
#[inline(always)]
pub unsafe fn cast<A, B>(a: A) -> B {
    assert!(
        core::mem::size_of::<A>() == core::mem::size_of::<B>(),
        "ABI: size of the header's type differs from the type the macro compiled"
    );
    assert!(
        core::mem::align_of::<A>() == core::mem::align_of::<B>(),
        "ABI: alignment of the header's type differs from the type the macro compiled"
    );
    let a = core::mem::ManuallyDrop::new(a);
    core::mem::transmute_copy::<A, B>(&*a)
}

/// The documented repr(C) layout of `DiplomatWrite` (runtime/src/write.rs), used for back ends whose
/// declarations do not spell the struct out (Dart, Kotlin pass an opaque pointer).
#[repr(C)]
pub struct WMirror {
    pub context: *mut core::ffi::c_void,
    pub buf: *mut u8,
    pub len: usize,
    pub cap: usize,
    pub grow_failed: bool,
    pub flush: extern "C" fn(*mut WMirror),
    pub grow: extern "C" fn(*mut WMirror, usize) -> bool,
}
pub extern "C" fn wm_flush(_w: *mut WMirror) {
    unsafe { FLUSHES += 1 };
}
pub extern "C" fn wm_grow(_w: *mut WMirror, _n: usize) -> bool {
    false
}
