// Hand-written family member (not produced by the IR): callbacks that are *stored* beyond the call that
// received them (the `MutableCallbackHolder` shape of feature_tests), Fn and FnMut. The harnesses play the
// foreign side through the callback struct the C header declares (mirror `m::DiplomatCallback_*`).
#![allow(unused, static_mut_refs, non_snake_case, non_camel_case_types, improper_ctypes_definitions, clippy::all)]
#[path = "vsupport.rs"]
pub mod vs;
pub mod hp {}
/*MIRROR*/

#[diplomat::bridge]
pub mod ffi {
    use crate::vs;
    #[cfg(kani)]
    use crate::m;

    #[diplomat::opaque]
    pub struct HolderMut {
        f: Box<dyn FnMut(i32) -> i32>,
    }
    #[diplomat::opaque]
    pub struct HolderFn {
        f: Box<dyn Fn(i32) -> i32>,
    }

    impl HolderMut {
        pub fn new(f: impl FnMut(i32) -> i32 + 'static) -> Box<HolderMut> {
            Box::new(HolderMut { f: Box::new(f) })
        }
        pub fn call(&mut self, x: i32) -> i32 {
            (self.f)(x)
        }
    }
    impl HolderFn {
        pub fn new(f: impl Fn(i32) -> i32 + 'static) -> Box<HolderFn> {
            Box::new(HolderFn { f: Box::new(f) })
        }
        pub fn call(&self, x: i32) -> i32 {
            (self.f)(x)
        }
    }

    #[cfg(kani)]
    unsafe extern "C" fn h_run(data: *mut core::ffi::c_void, x: i32) -> i32 {
        vs::CB_CALLS += 1;
        assert!(vs::CB_DESTRUCTS == 0, "C03: a stored callback was invoked after its destructor had run");
        assert!(data as usize == vs::CB_COOKIE, "C01: callback data pointer");
        x.wrapping_add(1)
    }
    #[cfg(kani)]
    unsafe extern "C" fn h_destroy(data: *mut core::ffi::c_void) {
        assert!(data as usize == vs::CB_COOKIE, "C03: destructor must receive the callback's data pointer");
        vs::CB_DESTRUCTS += 1;
    }

    macro_rules! stored_callback_harness {
        ($name:ident, $cbty:ident, $new:ident, $call:ident, $destroy:ident) => {
            #[cfg(kani)]
            #[kani::proof]
            #[kani::unwind(6)]
            fn $name() {
                unsafe {
                    vs::CB_COOKIE = if kani::any() { 0 } else { 0x5150 };
                    let with_destructor: bool = kani::any();
                    let cb = m::$cbty {
                        data: vs::CB_COOKIE as *mut core::ffi::c_void,
                        run_callback: Some(h_run),
                        destructor: if with_destructor { Some(h_destroy) } else { None },
                    };
                    let h: *mut core::ffi::c_void = vs::cast($new(vs::cast(cb)));
                    assert!(!h.is_null());
                    assert!(vs::CB_DESTRUCTS == 0, "C03: a stored callback must not be released while its holder is alive");
                    let n: u8 = kani::any();
                    kani::assume(n <= 3);
                    let mut i = 0;
                    while i < n {
                        let x: i32 = kani::any();
                        let r: i32 = vs::cast($call(vs::cast(h), vs::cast(x)));
                        assert!(r == x.wrapping_add(1), "C01: value returned by the stored callback");
                        assert!(vs::CB_DESTRUCTS == 0, "C03: a stored callback must not be released while its holder is alive");
                        i += 1;
                    }
                    assert!(vs::CB_CALLS == n as u32, "C01: the stored callback runs once per call");
                    $destroy(vs::cast(h));
                    assert!(
                        vs::CB_DESTRUCTS == if with_destructor { 1 } else { 0 },
                        "C03: the destructor of a stored callback runs exactly once, when its holder is destroyed"
                    );
                    kani::cover!(n == 3 && with_destructor);
                }
            }
        };
    }
    stored_callback_harness!(c03_stored_fnmut_callback, DiplomatCallback_HolderMut_new_f, HolderMut_new, HolderMut_call, HolderMut_destroy);
    stored_callback_harness!(c03_stored_fn_callback, DiplomatCallback_HolderFn_new_f, HolderFn_new, HolderFn_call, HolderFn_destroy);
}
