#[cfg(kani)]
mod kani_probe {
    use super::*;
    use diplomat_core::hir::{FloatType, IntSizeType, IntType, PrimitiveType};
    fn prim() -> (PrimitiveType, u8, bool, bool) {
        // (type, width, signed, float)
        let k: u8 = kani::any();
        kani::assume(k < 15);
        match k {
            0 => (PrimitiveType::Bool, 8, false, false),
            1 => (PrimitiveType::Char, 32, false, false),
            2 => (PrimitiveType::Byte, 8, false, false),
            3 => (PrimitiveType::Int(IntType::I8), 8, true, false),
            4 => (PrimitiveType::Int(IntType::U8), 8, false, false),
            5 => (PrimitiveType::Int(IntType::I16), 16, true, false),
            6 => (PrimitiveType::Int(IntType::U16), 16, false, false),
            7 => (PrimitiveType::Int(IntType::I32), 32, true, false),
            8 => (PrimitiveType::Int(IntType::U32), 32, false, false),
            9 => (PrimitiveType::Int(IntType::I64), 64, true, false),
            10 => (PrimitiveType::Int(IntType::U64), 64, false, false),
            11 => (PrimitiveType::IntSize(IntSizeType::Isize), 0, true, false),
            12 => (PrimitiveType::IntSize(IntSizeType::Usize), 0, false, false),
            13 => (PrimitiveType::Float(FloatType::F32), 32, true, true),
            _ => (PrimitiveType::Float(FloatType::F64), 64, true, true),
        }
    }
    fn decode(s: &str) -> (u8, bool, bool) {
        match s {
            "ffi.Bool" => (8, false, false), "ffi.Int8" => (8, true, false), "ffi.Uint8" => (8, false, false),
            "ffi.Int16" => (16, true, false), "ffi.Uint16" => (16, false, false),
            "ffi.Int32" => (32, true, false), "ffi.Uint32" => (32, false, false),
            "ffi.Int64" => (64, true, false), "ffi.Uint64" => (64, false, false),
            "ffi.IntPtr" => (0, true, false), "ffi.Size" => (0, false, false),
            "ffi.Float" => (32, true, true), "ffi.Double" => (64, true, true),
            _ => (255, false, false),
        }
    }
    #[kani::proof]
    #[kani::unwind(12)]
    fn dart_prim_ffi() {
        let tcx = core::mem::MaybeUninit::<TypeContext>::uninit();
        let dg = core::mem::MaybeUninit::<DocsUrlGenerator>::uninit();
        let f = DartFormatter::new(unsafe { tcx.assume_init_ref() }, unsafe { dg.assume_init_ref() });
        let (p, w, s, fl) = prim();
        let got = decode(f.fmt_primitive_as_ffi(p, false));
        assert!(got == (w, s, fl));
        core::mem::forget(f);
    }
}
