#include "S.h"
#include "O.h"
extern uint16_t LOG_A; extern int32_t LOG_B; extern uint32_t LOG_F; extern uint32_t CALLS;
uint16_t nondet_u16(void); int32_t nondet_i32(void); uint32_t nondet_u32(void); uint8_t nondet_u8(void); _Bool nondet_bool(void);
int main(void) {
  S s; s.a = nondet_u16(); s.b = nondet_i32(); uint32_t fb = nondet_u32();
  __CPROVER_assume(s.b > -1000 && s.b < 1000);
  union { uint32_t u; float f; } cv; cv.u = fb; s.f = cv.f;
  OptionU8 o; o.ok = nondet_u8(); o.is_ok = nondet_bool();
  E e = E_Y;
  S_take_result r = S_take(s, e, o);
  __CPROVER_assert(LOG_A == s.a, "a delivered");
  __CPROVER_assert(LOG_B == s.b, "b delivered");
  __CPROVER_assert(LOG_F == fb, "f delivered");
  __CPROVER_assert(CALLS == 1, "once");
  __CPROVER_assert(r.is_ok == o.is_ok, "arm");
  if (r.is_ok) __CPROVER_assert(r.ok == (int32_t)o.ok + s.b, "ok val"); else __CPROVER_assert(r.err == E_Y, "err val");
  O* p = O_new(o.ok);
  __CPROVER_assert(O_get(p) == o.ok, "opaque");
  O_destroy(p);
  return 0;
}
