#![allow(unused)]
use diplomat_runtime::*;
use core::fmt::Write;

#[cfg(kani)]
mod proofs {
    use super::*;

    // C03: DiplomatResult -> Result conversion drops payload exactly once
    #[kani::proof]
    fn result_into_std_box() {
        let b: bool = kani::any();
        let r: Result<Box<u8>, Box<u16>> = if b { Ok(Box::new(kani::any())) } else { Err(Box::new(kani::any())) };
        let d: DiplomatResult<Box<u8>, Box<u16>> = r.into();
        let back: Result<Box<u8>, Box<u16>> = d.into();
        match back {
            Ok(x) => { let _ = *x; }
            Err(e) => { let _ = *e; }
        }
    }

    extern "C" fn grow_nondet(this: *mut DiplomatWrite, cap: usize) -> bool {
        false
    }

    #[kani::proof]
    #[kani::unwind(6)]
    fn simple_write() {
        let mut buf = [0xAAu8; 8];
        let size: usize = kani::any();
        kani::assume(size >= 1 && size <= 8);
        let mut w = unsafe { diplomat_runtime_simple(buf.as_mut_ptr(), size) };
        let s: [u8; 4] = kani::any();
        let l: usize = kani::any();
        kani::assume(l <= 4);
        if let Ok(st) = core::str::from_utf8(&s[..l]) {
            let _ = w.write_str(st);
            w.flush();
        }
    }
    extern "C" { #[link_name="diplomat_simple_write"] fn diplomat_runtime_simple(buf: *mut u8, buf_size: usize) -> DiplomatWrite; }
}
