#![allow(unused, non_snake_case, non_camel_case_types)]
pub static mut LOG: [i128; 8] = [0; 8];
pub static mut CALLS: u32 = 0;
pub static mut RET_SEED: [i128; 4] = [0; 4];

// mirror as it would be derived from the C header symbol table
pub mod mirror_c {
    #[repr(C)] #[derive(Clone, Copy)] #[cfg_attr(kani, derive(kani::Arbitrary))]
    pub struct S { pub a: i16, pub b: i32, pub f: f32 }
    #[repr(C)] #[derive(Clone, Copy)]
    pub union OptionU8_u { pub ok: u8 }
    #[repr(C)] #[derive(Clone, Copy)]
    pub struct OptionU8 { pub u: OptionU8_u, pub is_ok: bool }
    #[repr(C)] #[derive(Clone, Copy)]
    pub union S_take_result_u { pub ok: i32, pub err: i32 /* enum E underlying signed int */ }
    #[repr(C)] #[derive(Clone, Copy)]
    pub struct S_take_result { pub u: S_take_result_u, pub is_ok: bool }
    pub const E_X: i32 = -3; pub const E_Y: i32 = -2; pub const E_Z: i32 = 7;
}

#[diplomat::bridge]
pub mod ffi {
    use crate::{LOG, CALLS, RET_SEED};
    pub struct S { pub a: u16, pub b: i32, pub f: f32 }
    pub enum E { X = -3, Y, Z = 7 }
    impl S {
        pub fn take(self, e: E, o: Option<u8>) -> Result<i32, E> {
            unsafe {
                LOG[0] = self.a as i128; LOG[1] = self.b as i128; LOG[2] = self.f.to_bits() as i128;
                LOG[3] = e as i32 as i128;
                LOG[4] = o.is_some() as i128; LOG[5] = o.unwrap_or(0) as i128;
                CALLS += 1;
                if RET_SEED[0] != 0 { Ok(RET_SEED[1] as i32) } else { Err(match RET_SEED[2] { 0 => E::X, 1 => E::Y, _ => E::Z }) }
            }
        }
    }

    #[cfg(kani)]
    #[kani::proof]
    fn abi_S_take() {
        use crate::mirror_c as c;
        const _: () = assert!(core::mem::size_of::<c::S>() == core::mem::size_of::<S>(), "VERIF-ABI size S");
        let p0: c::S = kani::any();
        let p1: i32 = kani::any();
        kani::assume(p1 == c::E_X || p1 == c::E_Y || p1 == c::E_Z);
        let okv: u8 = kani::any(); let isok: bool = kani::any();
        let p2 = c::OptionU8 { u: c::OptionU8_u { ok: okv }, is_ok: isok };
        let seed: [i128; 4] = kani::any();
        kani::assume(seed[1] >= i32::MIN as i128 && seed[1] <= i32::MAX as i128);
        unsafe { RET_SEED = seed; CALLS = 0; }
        let r = unsafe { S_take(core::mem::transmute(p0), core::mem::transmute(p1), core::mem::transmute(p2)) };
        let rc: c::S_take_result = unsafe { core::mem::transmute(r) };
        unsafe {
            assert!(CALLS == 1);
            assert!(LOG[0] == p0.a as i128);
            assert!(LOG[1] == p0.b as i128);
            assert!(LOG[2] == p0.f.to_bits() as i128);
            assert!(LOG[3] == p1 as i128);
            assert!(LOG[4] == isok as i128);
            if isok { assert!(LOG[5] == okv as i128); }
            assert!(rc.is_ok == (seed[0] != 0));
            if rc.is_ok { assert!(rc.u.ok as i128 == seed[1]); }
            else { let want = match seed[2] { 0 => c::E_X, 1 => c::E_Y, _ => c::E_Z }; assert!(rc.u.err == want); }
        }
        kani::cover!(isok); kani::cover!(!isok); kani::cover!(rc.is_ok); kani::cover!(!rc.is_ok);
    }
}
