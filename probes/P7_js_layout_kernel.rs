#![allow(unused)]
#[path = "/repo/tool/src/js/layout.rs"]
mod layout;
use diplomat_core::hir::{self, PrimitiveType, IntType, FloatType, IntSizeType, Type, OutputOnly, Everywhere};

#[cfg(kani)]
mod proofs {
    use super::*;
    fn prim() -> (PrimitiveType, usize) {
        let k: u8 = kani::any();
        kani::assume(k < 8);
        match k {
            0 => (PrimitiveType::Bool, 1),
            1 => (PrimitiveType::Int(IntType::U8), 1),
            2 => (PrimitiveType::Int(IntType::I16), 2),
            3 => (PrimitiveType::Int(IntType::U32), 4),
            4 => (PrimitiveType::Int(IntType::I64), 8),
            5 => (PrimitiveType::Float(FloatType::F32), 4),
            6 => (PrimitiveType::Float(FloatType::F64), 8),
            _ => (PrimitiveType::IntSize(IntSizeType::Usize), 4),
        }
    }
    #[kani::proof]
    #[kani::unwind(5)]
    fn layout3() {
        let tcx: &hir::TypeContext = unsafe { &*core::ptr::NonNull::<hir::TypeContext>::dangling().as_ptr() };
        let (p0, s0) = prim(); let (p1, s1) = prim(); let (p2, s2) = prim();
        let tys: [Type<Everywhere>; 3] = [Type::Primitive(p0), Type::Primitive(p1), Type::Primitive(p2)];
        let info = layout::struct_field_info(tys.iter(), tcx);
        // reference repr(C)
        let sz = [s0, s1, s2];
        let mut off = 0usize; let mut maxa = 1usize; let mut i = 0;
        while i < 3 {
            let a = sz[i];
            off = (off + a - 1) / a * a;
            assert!(info.fields[i].offset == off);
            off += sz[i]; if a > maxa { maxa = a; }
            i += 1;
        }
        let total = (off + maxa - 1) / maxa * maxa;
        assert!(info.struct_layout.size() == total);
        assert!(info.struct_layout.align() == maxa);
        core::mem::forget(info); 
    }
}
