#![allow(unused)]
use diplomat_core::ast::attrs::DiplomatBackendAttrCfg as Cfg;
use diplomat_core::hir::{AttributeValidator, BasicAttributeValidator, BackendAttrSupport};

#[cfg(kani)]
mod proofs {
    use super::*;
    fn sup() -> BackendAttrSupport {
        let mut s = BackendAttrSupport::default();
        s.option = kani::any(); s.callbacks = kani::any(); s.namespacing = kani::any(); s.traits = kani::any();
        s
    }
    #[kani::proof]
    #[kani::unwind(16)]
    fn cfg_f1_cpp() {
        let mut v = BasicAttributeValidator::new("cpp");
        let s = sup();
        v.support = s;
        // any(all(*, cpp, supports = "option"), not(js), supports = callbacks)
        let cfg = Cfg::Any(vec![
            Cfg::All(vec![Cfg::Star, Cfg::BackendName("cpp".into()), Cfg::NameValue("supports".into(), "option".into())]),
            Cfg::Not(Box::new(Cfg::BackendName("cpp".into()))),
            Cfg::All(vec![Cfg::NameValue("supports".into(), "callbacks".into()), Cfg::Not(Box::new(Cfg::NameValue("supports".into(), "traits".into())))]),
        ]);
        let expect = (true && true && s.option) || !(true) || (s.callbacks && !s.traits);
        match v.satisfies_cfg(&cfg, None) { Ok(g) => assert!(g == expect), Err(_) => assert!(false) }
        kani::cover!(expect); kani::cover!(!expect);
        core::mem::forget(cfg); core::mem::forget(v);
    }
}
