#![allow(unused)]
extern crate alloc;
#[path = "/repo/runtime/src/write.rs"]
mod write;
use write::*;
use core::fmt::Write;
use core::ffi::c_void;

#[repr(C)]
struct WMirror {
    context: *mut c_void,
    buf: *mut u8,
    len: usize,
    cap: usize,
    grow_failed: bool,
    flush: extern "C" fn(*mut WMirror),
    grow: extern "C" fn(*mut WMirror, usize) -> bool,
}

#[cfg(kani)]
mod proofs {
    use super::*;

    #[kani::proof]
    #[kani::unwind(10)]
    fn simple_write() {
        let mut buf = [0xAAu8; 8];
        let size: usize = kani::any();
        kani::assume(size >= 1 && size <= 8);
        let mut w = unsafe { write::diplomat_simple_write(buf.as_mut_ptr(), size) };
        let s: [u8; 4] = kani::any();
        let l: usize = kani::any();
        kani::assume(l <= 4);
        if let Ok(st) = core::str::from_utf8(&s[..l]) {
            let _ = w.write_str(st);
            w.flush();
            let m: &WMirror = unsafe { &*(&w as *const DiplomatWrite as *const WMirror) };
            if l <= size - 1 {
                assert!(!m.grow_failed);
                assert!(m.len == l);
                assert!(buf[l] == 0);
                let mut i = 0;
                while i < l { assert!(buf[i] == s[i]); i += 1; }
            } else {
                assert!(m.grow_failed);
                assert!(m.len == 0);
            }
            // bytes beyond size untouched
            let mut j = size; while j < 8 { assert!(buf[j] == 0xAA); j += 1; }
        }
    }
}
