"""E3 (C): the generated C headers as CBMC's C front end sees them.

`goto-cc` compiles a translation unit that includes every generated header and takes the address
of every declared function (unreferenced declarations are dropped from the symbol table otherwise);
`goto-instrument --show-symbol-table --json-ui` then yields, after real preprocessing and type
checking, every struct/union layout (with explicit padding members), enum constants with their
underlying type, and every prototype.  Nothing here re-implements C parsing.
"""
import json
import os
import re
from vlib import sh, ENV

C_KEYWORDS = {"void", "_Bool", "_Static_assert", "sizeof", "return", "if", "while", "for", "switch", "int", "char",
              "long", "short", "unsigned", "signed", "float", "double", "const", "struct", "union", "enum", "typedef"}


class CType:
    """kind: int|float|bool|ptr|struct|union|enum|void|fn|array"""

    def __init__(self, kind, **kw):
        self.kind = kind
        self.width = kw.get("width")
        self.signed = kw.get("signed")
        self.tag = kw.get("tag")
        self.to = kw.get("to")
        self.const = kw.get("const", False)
        self.typedef = kw.get("typedef")
        self.params = kw.get("params")
        self.ret = kw.get("ret")
        self.size = kw.get("size")
        self.is_plain_char = kw.get("is_plain_char", False)

    def __repr__(self):
        if self.kind == "int":
            return "%s%d" % ("i" if self.signed else "u", self.width)
        if self.kind == "float":
            return "f%d" % self.width
        if self.kind == "ptr":
            return "*%s%r" % ("const " if self.const else "", self.to)
        if self.kind in ("struct", "union", "enum"):
            return "%s %s" % (self.kind, self.tag)
        if self.kind == "fn":
            return "fn(%s)->%r" % (",".join(map(repr, self.params)), self.ret)
        return self.kind

    def c_spelling(self):
        return self.typedef or repr(self)


class CModel:
    def __init__(self):
        self.structs = {}    # tag -> {"members": [(name, CType, is_pad)], "incomplete": bool, "kind": "struct"|"union", "file": str}
        self.enums = {}      # tag -> {"underlying": CType, "consts": [(name, int)], "file": str}
        self.functions = {}  # name -> {"ret": CType, "params": [(name, CType)], "file": str, "line": int}
        self.header_text = {}

    # Layout by the natural-alignment rules of the x86-64 SysV C ABI over the *declared* members.  CBMC's symbol table also
    # lists explicit `$pad` members; they agree with these rules except that a union padded with a 128-bit integer makes
    # CBMC align the enclosing record to 16 (e.g. {union {void* ok; struct {int; int; short;} err;}; bool is_ok;} comes out
    # as 32 bytes where every C compiler gives 24), so the pads are not used for sizes.
    def alignof(self, t):
        if t.kind in ("int", "float"):
            return max(1, t.width // 8)
        if t.kind == "bool":
            return 1
        if t.kind in ("ptr", "fn"):
            return 8
        if t.kind == "enum":
            return self.alignof(self.enums[t.tag]["underlying"])
        if t.kind in ("struct", "union"):
            return max([self.alignof(m[1]) for m in self.structs[t.tag]["members"] if not m[2]] or [1])
        if t.kind == "array":
            return self.alignof(t.to)
        return 1

    def sizeof(self, t):
        if t.kind in ("int", "float"):
            return t.width // 8
        if t.kind == "bool":
            return 1
        if t.kind in ("ptr", "fn"):
            return 8
        if t.kind == "enum":
            return self.sizeof(self.enums[t.tag]["underlying"])
        if t.kind in ("struct", "union"):
            members = [m for m in self.structs[t.tag]["members"] if not m[2]]
            a = self.alignof(t)
            if t.kind == "union":
                raw = max([self.sizeof(m[1]) for m in members] or [0])
            else:
                raw = 0
                for _, mt, _ in members:
                    ma = self.alignof(mt)
                    raw = (raw + ma - 1) // ma * ma + self.sizeof(mt)
            return (raw + a - 1) // a * a
        if t.kind == "array":
            return self.sizeof(t.to) * t.size
        raise ValueError("sizeof %r" % t)

    def _member_bytes(self, m):
        name, t, pad = m
        if pad:
            return t.width // 8
        return self.sizeof(t)

    def offsets(self, tag):
        """[(name, offset, CType)] for non-padding members of a struct"""
        out = []
        off = 0
        s = self.structs[tag]
        for m in s["members"]:
            name, t, pad = m
            if pad:
                continue
            if s["kind"] == "union":
                out.append((name, 0, t))
                continue
            ma = self.alignof(t)
            off = (off + ma - 1) // ma * ma
            out.append((name, off, t))
            off += self.sizeof(t)
        return out


def _ns(node, key, default=None):
    return node.get("namedSub", {}).get(key, default)


def _id(node):
    return node.get("id", "") if node is not None else ""


def _conv_type(node):
    k = node.get("id")
    ns = node.get("namedSub", {})
    td = _id(ns.get("#typedef")) or None
    const = _id(ns.get("#constant")) == "1"
    if k in ("signedbv", "unsignedbv"):
        return CType("int", width=int(_id(ns["width"])), signed=(k == "signedbv"), typedef=td, const=const,
                     is_plain_char=(_id(ns.get("#c_type")) == "char"))
    if k == "floatbv":
        return CType("float", width=int(_id(ns["width"])), typedef=td, const=const)
    if k == "c_bool" or k == "bool":
        return CType("bool", width=8, typedef=td, const=const)
    if k == "pointer":
        to = _conv_type(node["sub"][0])
        return CType("ptr", to=to, const=to.const, typedef=td)
    if k == "struct_tag":
        return CType("struct", tag=_id(ns["identifier"]), typedef=td, const=const)
    if k == "union_tag":
        return CType("union", tag=_id(ns["identifier"]), typedef=td, const=const)
    if k == "c_enum_tag":
        return CType("enum", tag=_id(ns["identifier"]), typedef=td, const=const)
    if k == "empty" or k == "void":
        return CType("void", typedef=td, const=const)
    if k == "code":
        params = [_conv_type(_ns(p, "type")) for p in ns.get("parameters", {}).get("sub", [])]
        return CType("fn", params=params, ret=_conv_type(ns["return_type"]), typedef=td)
    if k == "array":
        sz = _ns(node, "size")
        n = int(_id(_ns(sz, "value")), 16) if sz is not None and _ns(sz, "value") is not None else 0
        return CType("array", to=_conv_type(node["sub"][0]), size=n, typedef=td)
    raise ValueError("unsupported C type node %r" % k)


def _srcfile(sym):
    loc = sym.get("location", {}) or {}
    f = _id(_ns(loc, "file")) if isinstance(loc, dict) and "namedSub" in loc else ""
    if not f:
        f = _id(_ns(_ns(sym.get("type", {}), "#source_location", {}) or {}, "file")) if isinstance(sym.get("type"), dict) else ""
    return f


def load(header_dir, workdir, exclude_runtime_fns=True):
    """Returns (CModel, problems[])"""
    problems = []
    headers = sorted(h for h in os.listdir(header_dir) if h.endswith(".h"))
    model = CModel()
    for h in headers:
        with open(os.path.join(header_dir, h)) as fh:
            model.header_text[h] = fh.read()
    inc = "".join('#include "%s"\n' % h for h in headers)
    all_c = os.path.join(workdir, "all_headers.c")
    with open(all_c, "w") as fh:
        fh.write(inc)
    rc, pre = sh(["goto-cc", "-E", "-I", header_dir, all_c], cwd=workdir)
    if rc != 0:
        return None, ["goto-cc -E failed: " + pre[-2000:]]
    cur = None
    keep = []
    for l in pre.splitlines():
        m = re.match(r'# \d+ "([^"]+)"', l)
        if m:
            cur = m.group(1)
            continue
        if cur and os.path.dirname(os.path.abspath(os.path.join(workdir, cur))) == os.path.abspath(header_dir):
            keep.append(l)
    txt = "\n".join(keep)
    # attribute specifiers are not declarators: `__attribute__((const)) char* f(T* t);` declares f, not __attribute__
    txt = re.sub(r"__attribute__\s*\(\((?:[^()]|\((?:[^()]|\([^()]*\))*\))*\)\)", " ", txt)
    txt = re.sub(r"\[\[[^\[\]]*\]\]", " ", txt)
    typedefs = set(re.findall(r"\}\s*(\w+)\s*;", txt))
    cands = []
    for name in re.findall(r"(?m)^[^\n;{}#]*?\b(\w+)\s*\([^;{}]*\)\s*;", txt):
        if name in C_KEYWORDS or name in typedefs or re.fullmatch(r"u?int\d+_t|size_t|intptr_t|char\d+_t|bool", name):
            continue
        if name not in cands:
            cands.append(name)
    use_c = os.path.join(workdir, "use_all.c")
    with open(use_c, "w") as fh:
        fh.write(inc)
        fh.write("void* __verif_fns[] = {%s};\n" % ",".join("(void*)%s" % n for n in cands))
    gb = os.path.join(workdir, "use_all.gb")
    rc, out = sh(["goto-cc", "-I", header_dir, "-c", use_c, "-o", gb], cwd=workdir)
    if rc != 0:
        return None, ["goto-cc failed on the generated headers: " + out[-3000:]]
    rc, out = sh(["goto-instrument", "--show-symbol-table", "--json-ui", gb], cwd=workdir)
    try:
        start = out.index("[")
        data = json.loads(out[start:])
    except Exception as e:
        return None, ["could not parse goto-instrument output: %r" % e]
    st = None
    for x in data:
        if isinstance(x, dict) and "symbolTable" in x:
            st = x["symbolTable"]
    if st is None:
        return None, ["no symbol table in goto-instrument output"]
    for name, sym in st.items():
        t = sym.get("type", {})
        k = t.get("id")
        if name.startswith("tag-") and k in ("struct", "union"):
            ns = t.get("namedSub", {})
            members = []
            for c in ns.get("components", {}).get("sub", []):
                cn = c.get("namedSub", {})
                members.append((_id(cn["name"]), _conv_type(cn["type"]), _id(cn.get("#is_padding")) == "1"))
            model.structs[name] = {"members": members, "kind": k,
                                   "incomplete": _id(ns.get("incomplete")) == "1" or ("components" not in ns),
                                   "file": _id(_ns(ns.get("#source_location", {}), "file")) if ns.get("#source_location") else ""}
        elif name.startswith("tag-") and k == "c_enum":
            ns = t.get("namedSub", {})
            under = _conv_type(t["sub"][0])
            consts = []
            for c in ns.get("body", {}).get("sub", []):
                cn = c.get("namedSub", {})
                v = int(_id(cn["value"]), 16)
                if under.signed and v >= 1 << (under.width - 1):
                    v -= 1 << under.width
                consts.append((_id(cn["base_name"]), v))
            model.enums[name] = {"underlying": under, "consts": consts,
                                 "file": _id(_ns(ns.get("#source_location", {}), "file")) if ns.get("#source_location") else ""}
        elif k == "code" and name in cands:
            ns = t.get("namedSub", {})
            params = []
            for p in ns.get("parameters", {}).get("sub", []):
                pn = p.get("namedSub", {})
                params.append((_id(pn.get("#base_name")), _conv_type(pn["type"])))
            loc = ns.get("#source_location", {})
            f = _id(_ns(loc, "file")) if loc else ""
            line = int(_id(_ns(loc, "line")) or 0) if loc else 0
            if exclude_runtime_fns and os.path.basename(f) == "diplomat_runtime.h":
                continue
            model.functions[name] = {"ret": _conv_type(ns["return_type"]), "params": params, "file": f, "line": line}
    for n in cands:
        if n not in model.functions and not n.startswith("diplomat_"):
            problems.append("declared in a header but not in CBMC's symbol table: %s" % n)
    return model, problems


def proto_text(model, fname):
    f = model.functions[fname]
    return "%s %s(%s)" % (f["ret"].c_spelling(), fname, ", ".join("%s %s" % (t.c_spelling(), n) for n, t in f["params"]))


if __name__ == "__main__":
    import sys
    import tempfile
    d = tempfile.mkdtemp()
    m, probs = load(sys.argv[1], d)
    print(probs)
    for n in m.functions:
        print(proto_text(m, n))
    for tag, s in m.structs.items():
        print(tag, s["kind"], [(a, repr(b), c) for a, b, c in s["members"]], "incomplete" if s["incomplete"] else m.sizeof(CType(s["kind"], tag=tag)))
    for tag, e in m.enums.items():
        print(tag, e)
