"""C01 / C12: the prototypes of the *runtime* functions in the generated diplomat_runtime.h (is_str, simple_write,
buffer_write_{create,get_bytes,len,destroy}) against the functions diplomat-runtime really compiles.

Same method as hgen_c (joint walk of a declaration and the compiled Rust item), specialised to the six hand-written
prototypes of tool/templates/c/runtime.h.jinja: arguments are built with the *header's* types (mirror types from the
goto-cc declaration model), reinterpreted (`cast`: size and alignment asserted) as whatever the Rust function takes,
the real function runs, its result is reinterpreted as the header's return type, and the C-side reading of the result
is compared with what the call must have produced.  The DiplomatWrite the C side sees is the header's struct
(`m::DiplomatWrite`); Rust's write_str/flush operate on that very storage.

Parameter counts are compared textually first (a count mismatch would be a Rust compile error in the harness, which
would make the check inconclusive instead of a finding)."""
import os
import re

import hgen_c

RT_FUNCS = {
    # name -> (module path inside the runtime crate, number of parameters is read from the source)
    "diplomat_is_str": "crate",
    "diplomat_simple_write": "crate::write",
    "diplomat_buffer_write_create": "crate::write",
    "diplomat_buffer_write_get_bytes": "crate::write",
    "diplomat_buffer_write_len": "crate::write",
    "diplomat_buffer_write_destroy": "crate::write",
}


def rust_param_counts(repo):
    out = {}
    d = os.path.join(repo, "runtime", "src")
    for f in sorted(os.listdir(d)):
        if not f.endswith(".rs"):
            continue
        txt = open(os.path.join(d, f)).read()
        for m in re.finditer(r"pub\s+(?:unsafe\s+)?extern\s+\"C\"\s+fn\s+(\w+)\s*\(([^)]*)\)", txt):
            ps = [p for p in m.group(2).split(",") if p.strip()]
            out[m.group(1)] = (len(ps), f)
    return out


HARMLESS_ATTRS = {"nothrow", "leaf", "warn_unused_result", "visibility", "unused", "deprecated", "cold", "hot", "used",
                  "dllimport", "dllexport", "cdecl", "nodiscard", "maybe_unused", "noinline", "always_inline", "gnu_inline", "artificial"}


def declared_attributes(header_dir, fn_names):
    """{fn: [attribute names]} read from the *preprocessed* diplomat_runtime.h (macros expanded): GNU `__attribute__((..))`
    and C23 `[[..]]` specifiers attached to the function's declaration.  These carry promises to the C compiler (const,
    pure, malloc, ...) that the type-level declaration model cannot see."""
    import subprocess
    hdr = os.path.join(header_dir, "diplomat_runtime.h")
    try:
        pre = subprocess.run(["goto-cc", "-E", "-I", header_dir, hdr], stdout=subprocess.PIPE, stderr=subprocess.PIPE, text=True, timeout=120).stdout
    except Exception:
        return None
    pre = "\n".join(l for l in pre.split("\n") if not l.startswith("#"))
    out = {}
    for fn in fn_names:
        m = re.search(r"[^;{}]*\b%s\s*\([^;{}]*\)[^;{}]*;" % re.escape(fn), pre)
        if not m:
            continue
        decl = m.group(0)
        attrs = []
        for am in re.finditer(r"__attribute__\s*\(\((.*?)\)\)", decl, flags=re.S):
            attrs += [a.strip() for a in re.split(r",(?![^()]*\))", am.group(1)) if a.strip()]
        for am in re.finditer(r"\[\[(.*?)\]\]", decl, flags=re.S):
            attrs += [a.strip() for a in re.split(r",(?![^()]*\))", am.group(1)) if a.strip()]
        norm = []
        for a in attrs:
            a = re.sub(r"\(.*\)$", "", a).strip()
            a = a.split("::")[-1].strip("_ ")
            norm.append(a)
        out[fn] = norm
    return out


def generate(cm, repo, prefixes, header_dir=None):
    """Returns (rust_text, static_findings[(subject, message)], harness_names)."""
    names = {}
    statics = []
    counts = rust_param_counts(repo)
    fns = {}
    for fn, modpath in RT_FUNCS.items():
        if fn not in cm.functions:
            if fn in counts:
                statics.append((fn, "diplomat-runtime exports %s but the generated diplomat_runtime.h does not declare it" % fn))
            continue
        if fn not in counts:
            statics.append((fn, "the generated diplomat_runtime.h declares %s but diplomat-runtime has no such extern \"C\" function" % fn))
            continue
        if counts[fn][0] != len(cm.functions[fn]["params"]):
            statics.append((fn, "%s takes %d parameter(s) in runtime/src/%s but the generated diplomat_runtime.h declares %d"
                            % (fn, counts[fn][0], counts[fn][1], len(cm.functions[fn]["params"]))))
            continue
        fns[fn] = cm.functions[fn]
    mt = lambda t: hgen_c.mtype(cm, t, names)
    attrs = declared_attributes(header_dir, list(fns)) if header_dir else {}
    unvalidated = []
    if attrs is None:
        attrs = {}
        unvalidated.append("the preprocessed diplomat_runtime.h could not be produced, so function attributes were not read")
    READERS = ("diplomat_buffer_write_get_bytes", "diplomat_buffer_write_len", "diplomat_is_str")
    for fn, al in attrs.items():
        for a in al:
            if a in HARMLESS_ATTRS or (a == "pure" and fn in READERS):
                continue        # `pure` (may read memory, no side effects) is true of the three readers
            if a == "const" and fn in READERS:
                continue        # checked by the solver below: same argument values, different memory => same result?
            unvalidated.append("%s is declared with attribute `%s`, which this check cannot validate against the Rust definition" % (fn, a))
    is_const = lambda fn: "const" in attrs.get(fn, [])

    def pick(fn, kind):
        """index and mirror type of the (only) parameter of the given kind"""
        c = [(i, t) for i, (_, t) in enumerate(fns[fn]["params"]) if (t.kind == "ptr") == (kind == "ptr")]
        if len(c) != 1:
            raise hgen_c.Mismatch("%s: expected exactly one %s parameter in the header, found %d" % (fn, kind, len(c)))
        return c[0]

    def call(fn, args):
        """Rust call text: args = {index: expr of the header's type}"""
        n = len(fns[fn]["params"])
        ordered = ", ".join("cast(%s)" % args[i] for i in range(n))
        ret = fns[fn]["ret"]
        path = "%s::%s" % (RT_FUNCS[fn], fn)
        if ret.kind == "void":
            return "%s(%s)" % (path, ordered)
        return "cast::<_, %s>(%s(%s))" % (mt(ret), path, ordered)

    bodies = {}
    try:
        if "diplomat_is_str" in fns:
            pi, pt = pick("diplomat_is_str", "ptr")
            li, lt = pick("diplomat_is_str", "int")
            if fns["diplomat_is_str"]["ret"].kind != "bool":
                raise hgen_c.Mismatch("diplomat_is_str: the header declares the result as %r, Rust returns bool" % fns["diplomat_is_str"]["ret"])
            bodies["is_str"] = (3, """
        let b: [u8; 2] = kani::any();
        let n: usize = kani::any();
        kani::assume(n <= 1);
        let a_ptr: %s = b.as_ptr() as usize as _;
        let a_len: %s = n as _;
        let r: bool = %s;
        // one byte is valid UTF-8 exactly when it is ASCII; zero bytes always are
        assert!(r == (n == 0 || b[0] < 0x80), "C01: diplomat_is_str called through the header's prototype gives a different answer");
        kani::cover!(r);
        kani::cover!(!r);%s""" % (mt(pt), mt(lt), call("diplomat_is_str", {pi: "a_ptr", li: "a_len"}),
                                  ("""
        // the header declares the function `const`: equal argument values must give equal results whatever memory holds
        let mut b2 = b; b2[0] = kani::any();
        core::ptr::write(a_ptr as usize as *mut u8, b2[0]);
        let r2: bool = %s;
        assert!(r == r2, "C01: diplomat_is_str is declared __attribute__((const)) but its result depends on the bytes pointed to");""" % call("diplomat_is_str", {pi: "a_ptr", li: "a_len"}))
                                  if is_const("diplomat_is_str") else ""))
        if "diplomat_simple_write" in fns:
            pi, pt = pick("diplomat_simple_write", "ptr")
            li, lt = pick("diplomat_simple_write", "int")
            bodies["simple_write"] = (8, """
        let mut buf = [0xAAu8; 6];
        let n: usize = kani::any();
        kani::assume(n >= 1 && n <= 5);
        let a_buf: %s = buf.as_mut_ptr() as usize as _;
        let a_size: %s = n as _;
        let mut w: m::DiplomatWrite = %s;
        assert!(w.buf as usize == buf.as_ptr() as usize, "C01: the writer does not point at the buffer the C caller passed");
        assert!((w.cap as usize) < n, "C12: the writer's capacity must leave room for the NUL inside the caller's buffer");
        assert!(w.len as usize == 0 && !w.grow_failed, "C12: a fresh writer must be empty and not failed");
        let k: usize = kani::any();
        kani::assume(k <= 5);
        let chunk = [b'a', b'b', b'c', b'd', b'e'];
        {
            use core::fmt::Write;
            let wr: &mut crate::write::DiplomatWrite = &mut *(&mut w as *mut m::DiplomatWrite as *mut crate::write::DiplomatWrite);
            let _ = wr.write_str(core::str::from_utf8_unchecked(&chunk[..k]));
            wr.flush();
        }
        if !w.grow_failed {
            assert!(w.len as usize == k, "C12: a stored chunk must be stored whole");
            let mut i = 0;
            while i < k { assert!(buf[i] == chunk[i], "C12: bytes in the caller's buffer differ from what Rust wrote"); i += 1; }
            assert!(k < n && buf[k] == 0, "C12: flush must NUL-terminate inside the caller's buffer");
        } else {
            assert!(w.len as usize == 0 && buf[0] == 0, "C12: a refused chunk must leave nothing behind (and the empty string terminated)");
            assert!(k > w.cap as usize, "C12: a chunk that fits the capacity was refused");
        }
        assert!(buf[5] == 0xAA, "C12: a byte beyond the caller's buffer size was touched");
        kani::cover!(!w.grow_failed && k + 1 == n);
        kani::cover!(w.grow_failed);""" % (mt(pt), mt(lt), call("diplomat_simple_write", {pi: "a_buf", li: "a_size"})))
        need = ["diplomat_buffer_write_create", "diplomat_buffer_write_get_bytes", "diplomat_buffer_write_len", "diplomat_buffer_write_destroy"]
        if all(f in fns for f in need):
            ct = fns["diplomat_buffer_write_create"]["params"][0][1]
            rt = fns["diplomat_buffer_write_create"]["ret"]
            if rt.kind != "ptr" or rt.to.kind != "struct" or rt.to.tag != "tag-DiplomatWrite":
                raise hgen_c.Mismatch("diplomat_buffer_write_create: the header declares the result as %r, Rust returns *mut DiplomatWrite" % rt)
            for f in need[1:]:
                p0 = fns[f]["params"][0][1]
                if p0.kind != "ptr" or p0.to.kind != "struct" or p0.to.tag != "tag-DiplomatWrite":
                    raise hgen_c.Mismatch("%s: the header declares the parameter as %r, Rust takes a DiplomatWrite pointer" % (f, p0))
            if fns["diplomat_buffer_write_destroy"]["ret"].kind != "void":
                raise hgen_c.Mismatch("diplomat_buffer_write_destroy: the header declares a result, Rust returns nothing")
            bodies["buffer_write"] = (8, """
        let cap: usize = kani::any();
        kani::assume(cap <= 3);
        let a_cap: %s = cap as _;
        let t: *mut m::DiplomatWrite = %s;
        assert!(!t.is_null(), "C01: diplomat_buffer_write_create returned NULL");
        assert!((*t).len as usize == 0 && (*t).cap as usize == cap && !(*t).grow_failed, "C01: the header's DiplomatWrite does not describe the fresh writer");
        %s
        let k: usize = kani::any();
        kani::assume(k <= 3);
        let chunk = [b'x', b'y', b'z'];
        {
            use core::fmt::Write;
            let wr: &mut crate::write::DiplomatWrite = &mut *(t as *mut crate::write::DiplomatWrite);
            let _ = wr.write_str(core::str::from_utf8_unchecked(&chunk[..k]));
            wr.flush();
        }
        let bytes: %s = %s;
        let len: %s = %s;
        assert!(len as usize == k, "C12: diplomat_buffer_write_len read through the header differs from the number of bytes Rust wrote");
        assert!(!(bytes as usize as *const u8).is_null(), "C12: diplomat_buffer_write_get_bytes returned NULL although no growth failed");
        let mut i = 0;
        while i < k { assert!(*(bytes as usize as *const u8).add(i) == chunk[i], "C12: bytes read through the header differ from what Rust wrote"); i += 1; }
        assert!((*t).len as usize == k && (*t).buf as usize == bytes as usize, "C01: the header's DiplomatWrite fields disagree with the accessors");
        %s
        %s;
        kani::cover!(k == 3 && cap == 0);""" % (mt(ct), call("diplomat_buffer_write_create", {0: "a_cap"}),
                                                  "let len0: %s = %s; let bytes0: %s = %s;" % (mt(fns["diplomat_buffer_write_len"]["ret"]), call("diplomat_buffer_write_len", {0: "t"}),
                                                                                              mt(fns["diplomat_buffer_write_get_bytes"]["ret"]), call("diplomat_buffer_write_get_bytes", {0: "t"}))
                                                  if (is_const("diplomat_buffer_write_len") or is_const("diplomat_buffer_write_get_bytes")) else "",
                                                  mt(fns["diplomat_buffer_write_get_bytes"]["ret"]), call("diplomat_buffer_write_get_bytes", {0: "t"}),
                                                  mt(fns["diplomat_buffer_write_len"]["ret"]), call("diplomat_buffer_write_len", {0: "t"}),
                                                  "\n        ".join(
                                                      (["assert!(len0 == len, \"C12: diplomat_buffer_write_len is declared __attribute__((const)) but two calls with the same pointer return different lengths (a C compiler may reuse the first)\");"]
                                                       if is_const("diplomat_buffer_write_len") else []) +
                                                      (["assert!(bytes0 as usize == bytes as usize, \"C12: diplomat_buffer_write_get_bytes is declared __attribute__((const)) but two calls with the same pointer return different buffers (a C compiler may reuse the first, stale one)\");"]
                                                       if is_const("diplomat_buffer_write_get_bytes") else [])),
                                                  call("diplomat_buffer_write_destroy", {0: "t"})))
    except hgen_c.Mismatch as e:
        statics.append(("diplomat_runtime.h", str(e)))

    mirror = hgen_c.emit_mirror(cm, names).replace("#[cfg(kani)]\n", "")
    asserts = "\n        ".join(hgen_c.layout_asserts(cm, names))
    out = ["// generated on every run by /verif/lib/rtprotos.py from the diplomat_runtime.h the working tree's tool emits",
           "#![allow(unused, non_snake_case, non_camel_case_types, clippy::all)]",
           mirror,
           """
/// Reinterpret a value of the header's type as the type the runtime compiled (and back): size and alignment must agree.
#[inline(always)]
unsafe fn cast<A, B>(a: A) -> B {
    assert!(core::mem::size_of::<A>() == core::mem::size_of::<B>(), "ABI: size of the header's type differs from the type the runtime compiled");
    assert!(core::mem::align_of::<A>() == core::mem::align_of::<B>(), "ABI: alignment of the header's type differs from the type the runtime compiled");
    let a = core::mem::ManuallyDrop::new(a);
    core::mem::transmute_copy::<A, B>(&*a)
}

"""]
    harnesses = []
    for pfx in prefixes:
        out.append("#[kani::proof]\npub(crate) fn %s_rtproto_layout_selfcheck() {\n    unsafe {\n        %s\n    }\n}\n" % (pfx, asserts))
        harnesses.append("%s_rtproto_layout_selfcheck" % pfx)
        for nm, (unwind, body) in bodies.items():
            h = "%s_rtproto_%s" % (pfx, nm)
            harnesses.append(h)
            out.append("#[kani::proof]\n#[kani::unwind(%d)]\npub(crate) fn %s() {\n    unsafe {%s\n    }\n}\n" % (unwind, h, body))
    return "\n".join(out), statics, harnesses, unvalidated
