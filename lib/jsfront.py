"""C08 front end for the emitted JS: run the generated struct classes under node (lib/jsprobe.mjs) to
obtain *access facts* - which bytes each leaf is written to / read from, how they are interpreted,
the flattened argument list of a by-value struct parameter, the receive-buffer size/alignment - and
compare them with the wasm32 repr(C) layout.  The layout itself is not trusted to this file: a Kani
harness (`layout_harness`) asserts that the reference layout computed here equals what rustc
computes (`size_of`, `align_of`, `offset_of!`) for a mirror of each struct in which pointer-sized
integers are replaced by 32-bit ones.
"""
import json
import os
import re
import subprocess

from bridgegen import Prim, EnumT, StructT, Opt, OpaqueRef, Slice, Str

PRIM_W32 = {"i8": (1, 1), "u8": (1, 1), "DiplomatByte": (1, 1), "bool": (1, 1), "i16": (2, 2), "u16": (2, 2), "i32": (4, 4), "u32": (4, 4),
            "DiplomatChar": (4, 4), "f32": (4, 4), "isize": (4, 4), "usize": (4, 4), "i64": (8, 8), "u64": (8, 8), "f64": (8, 8)}
MIRROR_TY = {"isize": "i32", "usize": "u32", "DiplomatChar": "u32", "DiplomatByte": "u8"}


def up(x, a):
    return (x + a - 1) // a * a


class Ref:
    """reference wasm32 repr(C) layout of the module's structs"""

    def __init__(self, mod):
        self.mod = mod
        self.cache = {}

    def ty(self, t):
        """(size, align)"""
        if isinstance(t, Prim):
            return PRIM_W32[t.name]
        if isinstance(t, EnumT):
            return (4, 4)
        if isinstance(t, OpaqueRef):
            return (4, 4)      # wasm32 pointer
        if isinstance(t, (Slice, Str)):
            return (8, 4)      # wasm32 {ptr, len}
        if isinstance(t, StructT):
            return self.struct(t.name)[:2]
        if isinstance(t, Opt):
            s, a = self.ty(t.inner)
            return (s + a, a)
        raise ValueError(t)

    def struct(self, name):
        """(size, align, [(fname, type, offset, size, align)])"""
        if name in self.cache:
            return self.cache[name]
        off, maxa, fields = 0, 1, []
        for fname, t in self.mod.structs[name].fields:
            s, a = self.ty(t)
            off = up(off, a)
            fields.append((fname, t, off, s, a))
            off += s
            maxa = max(maxa, a)
        r = (up(off, maxa), maxa, fields)
        self.cache[name] = r
        return r

    def leaves(self, name, base=0, prefix="", opt=()):
        """[(path, kind, type, offset, width)]; kind in prim|enum|flag"""
        out = []
        for fname, t, off, s, a in self.struct(name)[2]:
            path = prefix + fname
            if isinstance(t, StructT):
                out += self.leaves(t.name, base + off, path + ".", opt)
            elif isinstance(t, Opt):
                inner_s, inner_a = self.ty(t.inner)
                out.append((path + "?", "flag", None, base + off + inner_s, 1))
                if isinstance(t.inner, StructT):
                    out += self.leaves(t.inner.name, base + off, path + ".", opt + (path + "?",))
                else:
                    out.append((path, "enum" if isinstance(t.inner, EnumT) else "prim", t.inner, base + off, inner_s))
            elif isinstance(t, OpaqueRef):
                out.append((path, "ptr", t, base + off, 4))
            elif isinstance(t, (Slice, Str)):
                out.append((path, "slice", t, base + off, 8))
            else:
                out.append((path, "enum" if isinstance(t, EnumT) else "prim", t, base + off, s))
        return out

    def scalars(self, name):
        """number of scalars, or None for 'memory' (contains a union)"""
        n = 0
        for fname, t, off, s, a in self.struct(name)[2]:
            if isinstance(t, Opt):
                return None
            if isinstance(t, StructT):
                k = self.scalars(t.name)
                if k is None:
                    return None
                n += k
            elif isinstance(t, (Slice, Str)):
                n += 2
            else:
                n += 1
        return n

    def args_legacy(self, name, padded=None, prefix=""):
        """flattened argument list of the legacy Rust wasm ABI (docs/wasm_abi_quirks.md) as slot descriptors:
        ("leaf", path) | ("pad",) | ("chunk", optpath, k, align, size) | ("flag", optpath)"""
        if padded is None:
            sc = self.scalars(name)
            padded = sc is None or sc > 2
        size, align, fields = self.struct(name)
        out = []
        for i, (fname, t, off, s, a) in enumerate(fields):
            path = prefix + fname
            if isinstance(t, StructT):
                out += self.args_legacy(t.name, padded, path + ".")
            elif isinstance(t, Opt):
                # "Unions are passed as size/align parameters, each of size align", then the is_ok bool and align-1 padding bytes
                isz, ial = self.ty(t.inner)
                for k in range(isz // ial):
                    out.append(("chunk", path, k, ial, isz))
                out.append(("flag", path + "?"))
                out += [("pad",)] * (ial - 1)
            elif isinstance(t, (Slice, Str)):
                out += [("sliceptr", path), ("slicelen", path)]
            else:
                out.append(("leaf", path))
            nxt = fields[i + 1][2] if i + 1 < len(fields) else size
            gap = nxt - (off + s)
            if padded and gap:
                out += [("pad",)] * (gap // a)
        return out

    def option_payload_leaves(self, sname, optpath):
        """[(path, kind, type, offset relative to the payload, width)] of the leaves inside the option field `optpath`"""
        leaves = self.leaves(sname)
        flag = [l for l in leaves if l[0] == optpath + "?"][0]
        inner = [l for l in leaves if l[0] == optpath or l[0].startswith(optpath + ".")]
        start = min(l[3] for l in inner) if inner else flag[3]
        # the payload starts where the option field starts
        for fl in leaves:
            pass
        return inner, flag

    def eval_args(self, sname, descr, tokens, present, mod):
        """concrete expected argument list for leaf tokens (numbers / 'n..' bigints / True / discriminants)"""
        leaves = {l[0]: l for l in self.leaves(sname)}
        out = []
        for d in descr:
            if d[0] == "pad":
                out.append(0)
            elif d[0] == "leaf":
                out.append(tokens.get(d[1]))
            elif d[0] == "flag":
                out.append(1 if present else 0)
            else:
                _, optpath, k, align, size = d
                if not present:
                    out.append("n0" if align == 8 else 0)
                    continue
                inner = [l for l in leaves.values() if (l[0] == optpath or l[0].startswith(optpath + ".")) and l[1] != "flag"]
                # options nested inside the payload struct are present as well: their is_ok bytes are part of the image
                nested_flags = [l for l in leaves.values() if l[1] == "flag" and l[0].startswith(optpath + ".")]
                flag_off = leaves[optpath + "?"][3]
                base = flag_off - size
                img = bytearray(size)
                for l in nested_flags:
                    img[l[3] - base] = 1
                for path, kind, t, off, w in inner:
                    v = tokens.get(path)
                    if kind == "enum":
                        b = int(v) % (1 << 32)
                        img[off - base:off - base + 4] = b.to_bytes(4, "little")
                    elif t.name in ("f32", "f64"):
                        import struct
                        img[off - base:off - base + w] = struct.pack("<f" if w == 4 else "<d", float(v))
                    elif v is True or v is False:
                        img[off - base] = 1 if v else 0
                    else:
                        iv = int(v[4:]) if isinstance(v, str) and v.startswith("ptr:") else int(v[1:]) if isinstance(v, str) else int(v)
                        img[off - base:off - base + w] = (iv % (1 << (8 * w))).to_bytes(w, "little")
                val = int.from_bytes(img[k * align:(k + 1) * align], "little")
                out.append(("n%d" % val) if align == 8 else val)
        return out


def has_slices(sd):
    return any(isinstance(t, (Slice, Str)) for _, t in sd.fields)


INT_W = {"u8": 1, "i8": 1, "DiplomatByte": 1, "u16": 2, "i16": 2, "u32": 4, "i32": 4, "DiplomatChar": 4, "usize": 4, "isize": 4, "u64": 8, "i64": 8}


def slice_values(sd):
    """{field: python value} used for the slice-struct probe: distinctive scalars, short element lists, non-ASCII strings"""
    vals = {}
    for i, (n, t) in enumerate(sd.fields):
        if isinstance(t, Str):
            vals[n] = "a\u00e9z" if t.enc != "utf16" else "a\U0001F600!"
        elif isinstance(t, Slice):
            e = t.elem.name
            if e in ("f32", "f64"):
                vals[n] = [1.5, -2.0]
            elif e == "bool":
                vals[n] = [True, False, True]
            else:
                w = INT_W[e]
                signed = e[0] == "i"
                xs = [int.from_bytes(bytes((0x11 * (k + 1) + 0x10 * j) & 0x7F for k in range(w)), "little") for j in range(3)]
                vals[n] = [-x if (signed and j == 1) else x for j, x in enumerate(xs)]
        elif isinstance(t, Prim):
            e = t.name
            if e == "bool":
                vals[n] = True
            elif e in ("f32", "f64"):
                vals[n] = 2.5 + i
            else:
                w = INT_W[e]
                v = int.from_bytes(bytes((0x21 + 0x11 * k + i) & 0x7F for k in range(w)), "little")
                vals[n] = -v if e[0] == "i" else v
        else:
            raise ValueError("slice structs are flat: %s" % t.rust())
    return vals


def enc_scalar(e, v):
    import struct as _st
    if e == "bool":
        return bytes([1 if v else 0])
    if e == "f32":
        return _st.pack("<f", v)
    if e == "f64":
        return _st.pack("<d", v)
    w = INT_W[e]
    return (int(v) % (1 << (8 * w))).to_bytes(w, "little")


def slice_encoding(t, v):
    """(bytes, element count, element width) of a slice / string value"""
    if isinstance(t, Str):
        if t.enc == "utf16":
            b = v.encode("utf-16-le")
            return b, len(b) // 2, 2
        b = v.encode("utf-8")
        return b, len(b), 1
    e = t.elem.name
    w = 1 if e == "bool" else 4 if e == "f32" else 8 if e == "f64" else INT_W[e]
    return b"".join(enc_scalar(e, x) for x in v), len(v), w


def js_token(e, v):
    """JSON form of a scalar for the probe / as the probe reports it: bigints are "n<decimal>" """
    if e in ("u64", "i64"):
        return "n%d" % v
    return v


def slice_spec(mod, ref, opaque):
    """spec['slice_structs']: values to build each flat slice struct from, and a memory image to read it back from"""
    out = {}
    for sd in mod.structs.values():
        if not has_slices(sd):
            continue
        size, align, fields = ref.struct(sd.name)
        vals = slice_values(sd)
        fdescs = []
        struct_bytes = bytearray(size)
        data = []
        addr = 768
        for fname, t, off, s_, a_ in fields:
            v = vals[fname]
            if isinstance(t, Str):
                fdescs.append({"name": fname, "kind": "slice", "value": {"str": v}})
            elif isinstance(t, Slice):
                fdescs.append({"name": fname, "kind": "slice", "value": {"arr": [js_token(t.elem.name, x) for x in v]}})
            else:
                fdescs.append({"name": fname, "kind": "prim", "value": js_token(t.name, v)})
            if isinstance(t, (Slice, Str)):
                b, n, w = slice_encoding(t, v)
                addr = up(addr, 8)
                data.append([addr, list(b)])
                struct_bytes[off:off + 4] = addr.to_bytes(4, "little")
                struct_bytes[off + 4:off + 8] = n.to_bytes(4, "little")
                addr += len(b) + 8
            else:
                b = enc_scalar(t.name, v)
                struct_bytes[off:off + len(b)] = b
        meth = None
        for m in mod.methods:
            if m.owner == opaque and isinstance(m.ret, StructT) and m.ret.name == sd.name and len(m.params) == 1:
                meth = {"js": m.name, "symbol": m.abi_name()}
        out[sd.name] = {"fields": fdescs, "read": {"struct_bytes": list(struct_bytes), "data": data}, "method": meth}
    return out


def check_slice_image(sd, ref, img, images, what):
    """[message] - `img` (bytes from the struct's start) must be the repr(C) image of slice_values(sd), slice pointers resolving in `images`"""
    out = []
    size, align, fields = ref.struct(sd.name)
    vals = slice_values(sd)
    covered = set()
    for fname, t, off, s_, a_ in fields:
        v = vals[fname]
        if isinstance(t, (Slice, Str)):
            covered |= set(range(off, off + 8))
            b, n, w = slice_encoding(t, v)
            p = int.from_bytes(bytes(img[off:off + 4]), "little")
            ln = int.from_bytes(bytes(img[off + 4:off + 8]), "little")
            if ln != n:
                out.append("%s: field %s should store its length %d at bytes %d..%d; found %d (bytes %r)" % (what, fname, n, off + 4, off + 7, ln, img[off:off + 8]))
            im = images.get(str(p))
            if im is None:
                out.append("%s: field %s should store a pointer to its elements at bytes %d..%d; found %d, which is no buffer the emitted code allocated (%r)"
                           % (what, fname, off, off + 3, p, sorted(images)))
            else:
                if im["bytes"][:len(b)] != list(b) or im["size"] != len(b):
                    out.append("%s: the buffer of field %s should hold %d bytes %r; the emitted code allocated %d bytes holding %r" % (what, fname, len(b), list(b), im["size"], im["bytes"][:len(b) + 4]))
                if im["align"] != w:
                    out.append("%s: the buffer of field %s (%d-byte elements) should be allocated with alignment %d; emitted code asks for %d" % (what, fname, w, w, im["align"]))
        else:
            b = enc_scalar(t.name, v)
            covered |= set(range(off, off + len(b)))
            if list(img[off:off + len(b)]) != list(b):
                out.append("%s: field %s (%s) = %r should occupy bytes %d..%d with image %r; found %r" % (what, fname, t.name, v, off, off + len(b) - 1, list(b), list(img[off:off + len(b)])))
    return out, covered


def compare_slices(mod, ref, data, abi):
    out = []
    for sname, res in (data.get("slice_structs") or {}).items():
        sd = mod.structs[sname]
        size, align, fields = ref.struct(sname)
        vals = slice_values(sd)
        # ---- write ----
        w = res.get("write")
        if not w:
            out.append((sname, "write: no probe result"))
        else:
            img = w["img"][16:16 + size]
            msgs, covered = check_slice_image(sd, ref, img, w["images"], "write")
            out += [(sname, m_) for m_ in msgs]
            touched = {i - 16 for i, b in enumerate(w["img"]) if b != 0xAA}
            if not touched <= covered or not {o for o in covered} >= touched:
                out.append((sname, "write: the struct's byte image should cover exactly %r; emitted code writes %r" % (sorted(covered), sorted(touched))))
        # ---- read ----
        r = res.get("read")
        if r is None:
            out.append((sname, "read: no probe result"))
        else:
            for fname, t, off, s_, a_ in fields:
                v = vals[fname]
                if isinstance(t, Str):
                    exp = v
                elif isinstance(t, Slice):
                    exp = [js_token(t.elem.name, x) for x in v]
                else:
                    exp = js_token(t.name, v)
                got = r.get(fname)
                same = got == exp or (isinstance(exp, list) and isinstance(got, list) and len(got) == len(exp) and all(a == b for a, b in zip(got, exp)))
                if not same:
                    out.append((sname, "read: field %s stored at offset %d (elements at the pointed-to address) should read back as %r; emitted code reads %r" % (fname, off, exp, got)))
        # ---- argument list ----
        got = res.get("args")
        imgs = res.get("images") or {}
        if res.get("has_method") and got is None:
            out.append((sname, "argument list: the export was not called"))
        elif got is not None:
            recv_ok = [size, align] in (res.get("recv") or [])
            if not recv_ok:
                out.append((sname, "receive buffer for a returned %s should be allocated with size %d align %d; emitted code allocates %r" % (sname, size, align, res.get("recv"))))
            # the receive buffer's pointer is an extra argument (first or last)
            is_recv = lambda g: isinstance(g, int) and str(g) in imgs and [imgs[str(g)]["size"], imgs[str(g)]["align"]] == [size, align]
            rest = list(got)
            if rest and is_recv(rest[0]):
                rest = rest[1:]
            elif rest and is_recv(rest[-1]):
                rest = rest[:-1]
            if abi == "legacy":
                descr = ref.args_legacy(sname)
                if len(rest) != len(descr):
                    out.append((sname, "argument list for a by-value %s parameter (legacy wasm ABI) should have %d slots %r; emitted code passes %d: %r"
                                % (sname, len(descr), [d[0] + (":" + d[1] if len(d) > 1 else "") for d in descr], len(rest), rest)))
                else:
                    for d, g in zip(descr, rest):
                        if d[0] == "pad":
                            ok = g == 0
                            exp = 0
                        elif d[0] == "leaf":
                            t = dict((f[0], f[1]) for f in fields)[d[1]]
                            exp = js_token(t.name, vals[d[1]])
                            ok = (g == exp) or (isinstance(exp, bool) and g == int(exp)) or (isinstance(g, bool) and int(g) == exp)
                            if t.name in ("u32", "usize", "DiplomatChar") and isinstance(g, int) and isinstance(exp, int):
                                ok = ok or (g % (1 << 32)) == exp         # large u32 values may be passed as negative i32
                        elif d[0] == "slicelen":
                            t = dict((f[0], f[1]) for f in fields)[d[1]]
                            exp = slice_encoding(t, vals[d[1]])[1]
                            ok = g == exp
                        else:
                            t = dict((f[0], f[1]) for f in fields)[d[1]]
                            b, n, w_ = slice_encoding(t, vals[d[1]])
                            im = imgs.get(str(g))
                            exp = "pointer to %r" % list(b)
                            ok = im is not None and im["bytes"][:len(b)] == list(b) and im["size"] == len(b) and im["align"] == w_
                        if not ok:
                            out.append((sname, "argument list for a by-value %s parameter (legacy wasm ABI): slot %s should be %r; emitted code passes %r (whole list %r, buffers %r)"
                                        % (sname, d[0] + (":" + d[1] if len(d) > 1 else ""), exp, g, rest, {k_: (v_["size"], v_["align"], v_["bytes"][:12]) for k_, v_ in imgs.items()})))
                            break
            else:
                cands = [g for g in rest if is_recv(g)]
                ok_any = False
                why = []
                for g in cands:
                    msgs, _cov = check_slice_image(sd, ref, imgs[str(g)]["bytes"], imgs, "js.abi=spec argument buffer")
                    if not msgs:
                        ok_any = True
                    why += msgs
                if not ok_any:
                    out.append((sname, "js.abi=spec: a by-value %s should be passed as a pointer to a %d-byte, %d-aligned buffer holding its repr(C) image; emitted code passes %r (%s)"
                                % (sname, size, align, got, "; ".join(why[:3]) or "no buffer of that size and alignment among the arguments")))
    return out


def spec_from_module(mod, opaque):
    def fdesc(name, t):
        if isinstance(t, Prim):
            return {"name": name, "kind": "prim", "ty": t.name}
        if isinstance(t, EnumT):
            return {"name": name, "kind": "enum", "ty": t.name, "variants": [[n, v] for n, v in mod.enums[t.name].values()]}
        if isinstance(t, StructT):
            return {"name": name, "kind": "struct", "ty": t.name}
        if isinstance(t, OpaqueRef):
            return {"name": name, "kind": "opaque", "ty": t.name, "optional": bool(t.optional)}
        if isinstance(t, Opt):
            return {"name": name, "kind": "opt", "inner": fdesc(name, t.inner)}
        raise ValueError(t)
    spec = {"structs": {}, "enums": {e: 1 for e in mod.enums}, "opaque": opaque, "methods": {}, "slice_structs": {}}
    for sd in mod.structs.values():
        if has_slices(sd):
            continue          # flat structs with slice fields take the dedicated path (slice_spec / compare_slices)
        spec["structs"][sd.name] = {"fields": [fdesc(n, t) for n, t in sd.fields]}
    for m in mod.methods:
        if m.owner == opaque and m.ret is not None and isinstance(m.ret, StructT) and len(m.params) == 1 and isinstance(m.params[0][1], StructT) \
                and m.params[0][1].name == m.ret.name:
            spec["methods"][m.ret.name] = {"js": m.name, "symbol": m.abi_name()}
    return spec


def result_returns(mod, ref, opaque):
    """[(js method name, symbol, expected receive-buffer (size, align))] for methods returning Option/Result records.
    The emitted code allocates union_size + 1 bytes (is_ok is read at size - 1) with the record's alignment."""
    from bridgegen import Res
    out = []
    for m in mod.methods:
        if m.owner != opaque or m.params or not isinstance(m.ret, (Res, Opt)):
            continue
        arms = [m.ret.inner] if isinstance(m.ret, Opt) else [m.ret.ok, m.ret.err]
        sizes = [ref.ty(a) for a in arms if a is not None]
        if not sizes:
            continue
        al = max(a for _, a in sizes)
        union = up(max(s_ for s_, _ in sizes), al)
        out.append((m.name, m.abi_name(), [union + 1, al]))
    return out


def probe(jsdir, mod, opaque, verif_lib):
    spec = spec_from_module(mod, opaque)
    spec["result_methods"] = [[n, sym] for n, sym, _ in result_returns(mod, Ref(mod), opaque)]
    spec["slice_structs"] = slice_spec(mod, Ref(mod), opaque)
    with open(os.path.join(jsdir, "verif_spec.json"), "w") as fh:
        json.dump(spec, fh)
    with open(os.path.join(jsdir, "diplomat-wasm.mjs"), "w") as fh:
        fh.write("// stub written by /verif/lib/jsfront.py\nexport default globalThis.__verif_wasm;\n")
    script = os.path.join(jsdir, "verif_jsprobe.mjs")
    with open(os.path.join(verif_lib, "jsprobe.mjs")) as src, open(script, "w") as dst:
        dst.write(src.read())
    p = subprocess.run(["node", "verif_jsprobe.mjs", "verif_spec.json"], cwd=jsdir, stdout=subprocess.PIPE, stderr=subprocess.PIPE, text=True, timeout=300)
    if p.returncode != 0:
        return None, "node exited %d: %s" % (p.returncode, p.stderr[-1500:])
    try:
        return json.loads(p.stdout.strip().split("\n")[-1]), ""
    except Exception as e:
        return None, "cannot parse probe output: %r %s" % (e, p.stdout[-300:])


def le_bytes(tok, width):
    """byte image of a probe value token"""
    if isinstance(tok, str) and tok.startswith("f32bits:"):
        return list(int(tok[8:], 16).to_bytes(4, "little"))
    if isinstance(tok, str) and tok.startswith("f64bits:"):
        return list(int(tok[8:], 16).to_bytes(8, "little"))
    if tok == "true":
        return [1]
    if isinstance(tok, str) and tok.startswith("ptr:"):
        return list(int(tok[4:]).to_bytes(4, "little"))
    v = int(tok[1:]) if isinstance(tok, str) and tok.startswith("n") else int(tok)
    return list((v % (1 << (8 * width))).to_bytes(width, "little"))


def compare(mod, ref, data, abi="legacy"):
    """[(struct, message)] - every disagreement between the emitted JS's access facts and the reference layout"""
    out = []
    for sname, res in data["structs"].items():
        size, align, _ = ref.struct(sname)
        leaves = ref.leaves(sname)
        expected_written = set()
        single = ref.scalars(sname) == 1    # an aggregate with one scalar is passed and returned as that scalar: no buffer is read
        for path, kind, t, off, w in leaves:
            expected_written |= set(range(off, off + w))
            wr = res["write"].get(path)
            rd = res["read"].get(path)
            if kind == "flag":
                ok = wr is not None and off in wr["changed"]
                if ok:
                    k = wr["changed"].index(off)
                    # payload bytes may be left unwritten when the value is absent; the flag byte itself must be 1 / 0
                    ok = wr["present"][k] == 1 and wr["absent"][k] == 0 and all(c <= off for c in wr["changed"])
                if not ok:
                    out.append((sname, "write: option flag %s should be the byte at offset %d (1 when present, 0 when absent); emitted code gives %r" % (path, off, wr)))
                if rd is None or rd.get("flag_offsets") != [off]:
                    out.append((sname, "read: option flag %s should be read from offset %d; emitted code reacts to bytes %r" % (path, off, rd and rd.get("flag_offsets"))))
                continue
            # ---- write ----
            if not wr:
                if not (kind == "enum" and len(mod.enums[t.name].variants) == 1):    # a one-variant enum has no second value to write
                    out.append((sname, "write: no probe result for leaf %s" % path))
            else:
                for pr in wr:
                    rng = list(range(off, off + w))
                    if kind == "enum":
                        name = pr["value"][5:]
                        disc = dict(mod.enums[t.name].values())[name]
                        base_disc = mod.enums[t.name].values()[0][1]
                        img = le_bytes(disc, 4)
                        base_img = le_bytes(base_disc, 4)
                        exp_changed = [off + i for i in range(4) if img[i] != base_img[i]]
                        exp_bytes = [img[i] for i in range(4) if img[i] != base_img[i]]
                        if pr["changed"] != exp_changed or pr["bytes"] != exp_bytes:
                            out.append((sname, "write: enum leaf %s = %s should change bytes %r to %r (i32 discriminant at offset %d); emitted code changes %r to %r"
                                        % (path, name, exp_changed, exp_bytes, off, pr["changed"], pr["bytes"])))
                        continue
                    img = le_bytes(pr["value"], w)
                    exp_changed = [off + i for i in range(w) if img[i] != 0]
                    if kind == "ptr" and pr["value"] == "ptr:0":
                        continue
                    exp_bytes = [b for b in img if b != 0]
                    if pr["changed"] != exp_changed or pr["bytes"] != exp_bytes:
                        out.append((sname, "write: leaf %s (%s) = %s should occupy bytes %d..%d with image %r; emitted code changes bytes %r to %r"
                                    % (path, t.rust(), pr["value"], off, off + w - 1, img, pr["changed"], pr["bytes"])))
            # ---- read ----
            if single:
                continue
            if not rd:
                out.append((sname, "read: no probe result for leaf %s" % path))
                continue
            rng = list(range(off, off + w))
            if kind == "enum":
                for vn, vv in mod.enums[t.name].values():
                    if rd["enumReads"].get(vn) != [off]:
                        out.append((sname, "read: a discriminant of %s::%s stored at offset %d should read back as that variant from exactly that offset; emitted code recognises it at offsets %r"
                                    % (t.name, vn, off, rd["enumReads"].get(vn))))
                continue
            if kind == "ptr":
                if rd["dep"] != rng:
                    out.append((sname, "read: pointer leaf %s should be read from bytes %d..%d; emitted code depends on %r" % (path, off, off + 3, rd["dep"])))
                elif rd["ones"] != "ptr:4294967295" or rd["pat"] != "ptr:%d" % 0x44332211:
                    out.append((sname, "read: pointer leaf %s with bytes FF.. / 11 22 33 44 should read 4294967295 / %d; emitted code reads %r / %r" % (path, 0x44332211, rd["ones"], rd["pat"])))
                if t.optional and rd["zero"] is not None:
                    out.append((sname, "read: an all-zero optional pointer %s should read as null; emitted code reads %r" % (path, rd["zero"])))
                continue
            name = t.name
            if name == "bool":
                if rd["dep"] != [off]:
                    out.append((sname, "read: bool leaf %s should be read from byte %d; emitted code depends on %r" % (path, off, rd["dep"])))
                continue
            if rd["dep"] != rng:
                out.append((sname, "read: leaf %s (%s) should be read from bytes %d..%d; emitted code depends on %r" % (path, name, off, off + w - 1, rd["dep"])))
                continue
            if name in ("f32", "f64"):
                continue
            signed = name in ("i8", "i16", "i32", "i64", "isize")
            ones = -1 if signed else (1 << (8 * w)) - 1
            pat = int.from_bytes(bytes(0x11 * (k + 1) for k in range(w)), "little")
            if signed and pat >= 1 << (8 * w - 1):
                pat -= 1 << (8 * w)
            tok = (lambda v: ("n%d" % v) if w == 8 else v)
            if rd["ones"] != tok(ones):
                out.append((sname, "read: leaf %s (%s) with all-ones bytes should read %r; emitted code reads %r (wrong signedness or width)" % (path, name, tok(ones), rd["ones"])))
            if rd["pat"] != tok(pat):
                out.append((sname, "read: leaf %s (%s) with bytes 11 22 .. should read %r; emitted code reads %r" % (path, name, tok(pat), rd["pat"])))
        if res.get("written0") is not None and set(res["written0"]) != expected_written:
            out.append((sname, "write: the struct's byte image should cover exactly %r; emitted code writes %r" % (sorted(expected_written), res["written0"])))
        # ---- receive buffer ----
        if res.get("recv") is not None and res.get("args") is not None and not single:
            if [size, align] not in res["recv"]:
                out.append((sname, "receive buffer for a returned %s should be allocated with size %d align %d; emitted code allocates %r" % (sname, size, align, res["recv"])))
        # ---- argument list ----
        if res.get("args") is not None and abi == "legacy":
            descr = ref.args_legacy(sname)
            runs = [("distinct non-zero leaf values", res["args"], res["tokens"], True, res.get("images") or {})]
            if res.get("args_zero"):
                runs.append(("all-zero / false leaf values", res["args_zero"]["args"], res["args_zero"]["tokens"], True, res["args_zero"].get("images") or {}))
            if res.get("args_absent"):
                runs.append(("absent optional fields", res["args_absent"]["args"], res["args_absent"]["tokens"], False, res["args_absent"].get("images") or {}))
            for what, got, toks, present, imgs_run in runs:
                if got is None:
                    out.append((sname, "argument list (%s): the export was not called" % what))
                    continue
                exp_vals = ref.eval_args(sname, descr, toks, present, mod)
                # the receive buffer pointer is passed as an extra argument; drop pointers the probe handed out
                # (exactly those: a leaf value such as the bit pattern of an f32 may well be a multiple of 256)
                got_wo = [g for g in got if not (isinstance(g, int) and not isinstance(g, bool) and str(g) in imgs_run)]
                norm = lambda xs: [(1 if x is True else 0 if x is False else x) for x in xs]
                if norm(got_wo) != norm(exp_vals):
                    shape = ["pad" if d[0] == "pad" else d[1] + ("[%d]" % d[2] if d[0] == "chunk" else "") for d in descr]
                    out.append((sname, "argument list for a by-value %s parameter (legacy wasm ABI, %s) should be %r (slots %r); emitted code passes %r" % (sname, what, exp_vals, shape, got_wo)))
        # ---- js.abi = spec: a by-value struct (more than one scalar) is passed as a pointer to its byte image ----
        if abi == "spec" and res.get("args") is not None and not single:
            toks = res["tokens"]
            ptr_args = [g for g in res["args"] if isinstance(g, int) and not isinstance(g, bool) and g >= 1024 and g % 256 == 0]
            imgs = res.get("images") or {}
            cands = [p_ for p_ in ptr_args if str(p_) in imgs and [imgs[str(p_)]["size"], imgs[str(p_)]["align"]] == [size, align]]
            # one of the pointers is the receive buffer (left untouched by the stub); the other must hold the struct's image
            exp = {}
            for path, kind, t, off, w in leaves:
                if kind == "flag":
                    exp[off] = 1
                    continue
                v = toks.get(path)
                if kind == "enum":
                    b = (int(v) % (1 << 32)).to_bytes(4, "little")
                elif t.name in ("f32", "f64"):
                    import struct as _st
                    b = _st.pack("<f" if w == 4 else "<d", float(v))
                elif v is True or v is False:
                    b = bytes([1 if v else 0])
                else:
                    iv = 0 if v is None else int(v[1:]) if isinstance(v, str) else int(v)
                    b = (iv % (1 << (8 * w))).to_bytes(w, "little")
                for i_, bb in enumerate(b):
                    exp[off + i_] = bb
            ok_any = False
            for p_ in cands:
                by = imgs[str(p_)]["bytes"]
                if all(o < len(by) and by[o] == bb for o, bb in exp.items()):
                    ok_any = True
            if not ok_any:
                out.append((sname, "js.abi=spec: a by-value %s should be passed as a pointer to a %d-byte, %d-aligned buffer holding its repr(C) image %r; "
                                   "emitted code passes %r with buffers %r" % (sname, size, align, exp, res["args"], {k_: (v_["size"], v_["align"], v_["bytes"][:size]) for k_, v_ in imgs.items()})))
    exp_rr = {n: e for n, _, e in result_returns(mod, ref, getattr(mod, "js_opaque", "Js"))}
    for n, got in (data.get("result_returns") or {}).items():
        if n in exp_rr and exp_rr[n] not in got:
            out.append(("returns", "receive buffer of %s (a fallible/optional return) should be allocated with size %d (payload union + is_ok byte) and align %d; emitted code allocates %r"
                        % (n, exp_rr[n][0], exp_rr[n][1], got)))
    out += compare_slices(mod, ref, data, abi)
    for e in data.get("errors", []):
        out.append(("probe", "emitted code threw while probing: %s" % e))
    return out


def layout_harness(mod, ref):
    """Kani harness text: the reference layout above equals rustc's layout of 32-bit-pointer mirrors."""
    lines = []
    mirror = ["#[cfg(kani)]\n#[allow(non_snake_case, non_camel_case_types, unused)]\npub mod w32 {", "    use diplomat_runtime::DiplomatOption;"]

    def mty(t):
        if isinstance(t, Prim):
            return MIRROR_TY.get(t.name, t.name)
        if isinstance(t, EnumT):
            return "i32"
        if isinstance(t, OpaqueRef):
            return "u32"
        if isinstance(t, (Slice, Str)):
            return "[u32; 2]"      # {ptr, len} with 32-bit pointers
        if isinstance(t, StructT):
            return t.name
        if isinstance(t, Opt):
            return "DiplomatOption<%s>" % mty(t.inner)
    for sd in mod.structs.values():
        mirror.append("    #[repr(C)]\n    pub struct %s { %s }" % (sd.name, ", ".join("pub %s: %s" % (n, mty(t)) for n, t in sd.fields)))
    mirror.append("}")
    body = []
    for sd in mod.structs.values():
        size, align, fields = ref.struct(sd.name)
        body.append("assert!(core::mem::size_of::<crate::w32::%s>() == %d, \"C08: reference size of %s differs from rustc's\");" % (sd.name, size, sd.name))
        body.append("assert!(core::mem::align_of::<crate::w32::%s>() == %d, \"C08: reference alignment of %s differs from rustc's\");" % (sd.name, align, sd.name))
        for fname, t, off, s, a in fields:
            body.append("assert!(core::mem::offset_of!(crate::w32::%s, %s) == %d, \"C08: reference offset differs from rustc's\");" % (sd.name, fname, off))
    text = "    #[cfg(kani)]\n    #[kani::proof]\n    fn c08_js_reference_layout_is_rustc_layout() {\n        %s\n    }\n" % "\n        ".join(body)
    return "\n".join(mirror), text, "c08_js_reference_layout_is_rustc_layout"
