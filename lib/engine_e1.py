"""E1: harness crates over the real diplomat-runtime sources (see DESIGN.md 2.1)."""
import os
import re
from vlib import *

RT_MAIN = os.path.join(VERIF, "harness", "rt_main")
RT_LIB = os.path.join(VERIF, "harness", "rt_lib")
JS_LAYOUT = os.path.join(VERIF, "harness", "js_layout")
# crate dir, tag, properties served, needs /repo's Cargo.lock
CRATES = [(RT_MAIN, "rt_main", {"C01", "C03", "C10", "C12", "C16"}, False),
          (RT_LIB, "rt_lib", {"C03", "C16"}, True),
          (JS_LAYOUT, "js_layout", {"C08"}, True)]

BOUNDS = {
    "C01": {"quick": "runtime prototypes of the generated diplomat_runtime.h (is_str, simple_write, buffer_write_create/get_bytes/len/destroy) against the compiled runtime: "
                     "buffer size 1..5, capacity 0..3, one chunk of 0..5 / 0..3 ASCII bytes, all values symbolic",
            "thorough": "same as quick"},
    "C08": {"quick": "tool/src/js/layout.rs::struct_field_info / type_size_alignment_and_scalar_count / primitive_size_alignment: field sequences of length 1..4 "
                     "whose variants are fixed per harness (22 masks over primitive / enum / primitive slice / str slice) with all 15 primitive kinds symbolic in every "
                     "primitive position (15^4 kind sequences per mask); DiplomatOption<prim> and DiplomatOption<enum> as single fields; unwind 7 (recursion bound 2 for options)",
            "thorough": "as quick plus three 5-field masks"},
    "C16": {"quick": "slices: every primitive element type, array of 4, symbolic length 0..4, NULL+0 views; "
                     "str: symbolic byte strings of length 0..4 accepted by from_utf8; diplomat_is_str: all byte "
                     "strings of length 0..4 (2^32 four-byte strings symbolically) vs. the Table 3-7 recogniser; unwind 6..10",
            "thorough": "as quick, plus str views up to 6 bytes and diplomat_is_str on all byte strings of length 0..6; unwind 14"},
    "C03": {"quick": "DiplomatResult<Tok,Tok>/DiplomatOption<Tok>: symbolic arm, symbolic sequence of 3 operations out of "
                     "{from, into, into_option, into_converted_option, clone, as_ref, drop}; DiplomatOwnedSlice<Tok|u8|u16|u64>: "
                     "length 0..3, 4 paths; callback destructor Some/None; diplomat_alloc/free size 1..8 align 1,2,4,8; "
                     "Rust-owned writer create/grow/destroy; layouts across the boundary: diplomat_alloc -> owned slice/str dropped by Rust and Box<[T]>/Box<str> "
                     "released by diplomat_free for T in {u8,u16,u32,u64}, length 1..3, with std's alloc/dealloc/realloc entry points stubbed by layout-recording wrappers; unwind 10",
            "thorough": "as quick with operation sequences of length 5"},
    "C10": {"quick": "DiplomatResult<T,E> for (T,E) in {(u8,u8),(u64,u8),(u8,i64),(i32,()),((),u16),((),()),(Pair,Wide),(Wide,()),(bool,Pair)} "
                     "and DiplomatOption<T> for T in {u8,u32,i64,bool,Pair,(), an enum without a zero discriminant, a struct holding it, NonZeroU16}: all payload values, both arms, both directions",
            "thorough": "same as quick (the value space is already covered completely)"},
    "C12": {"quick": "caller-supplied writer: initial capacity 1..6, 3 chunks of 0..3 bytes (ASCII) / 3 chunks of one symbolic "
                     "char each (1..3 bytes, every scalar value that fits), every grow outcome schedule, grow may over-allocate by 0..1; "
                     "fixed buffer 1..8 bytes, 2 chunks of 0..3 bytes; Rust-owned writer capacity 0..4, 2 chunks; unwind 14",
            "thorough": "4 chunks of 0..4 bytes, capacity 1..8, over-allocation 0..2, 4 one-char chunks (1..4 bytes)"},
}

ASSUMPTIONS = [
    "Kani 0.68 / CBMC 6.11 memory model (x86_64-unknown-linux-gnu, 64-bit pointers), CaDiCaL verdicts trusted",
    "harness crate rt_main is rooted on a per-run re-rooted copy of /repo/runtime/src/lib.rs (inner crate attributes dropped, every `mod x;` pointed at /repo/runtime/src/x.rs) so the real modules and root items are compiled with private items reachable; rt_lib depends on /repo/runtime by path: the code verified is the working tree's, compiled in Kani's dev profile (debug assertions and overflow checks on)",
    "private struct fields are read through #[repr(C)] mirror structs (the documented FFI layout); a size mismatch is asserted",
    "bounds stated in coverage.bounds; nothing is claimed beyond them (unwinding assertions are on, so a too-small unwind bound fails instead of truncating)",
]

PER_PROP_ASSUMPTIONS = {
    "C08": ["kernel half (this crate): the Rust layout routine only; the JS text the back end emits (struct.js.jinja, runtime.mjs, argument flattening in gen.rs) has no symbolic engine here and is covered by the emitted-JS half (node-extracted access facts, see coverage.js_*)",
            "reference model: C layout rules with wasm32 sizes (pointers, usize, enums = 4 bytes) and docs/wasm_abi_quirks.md typed padding (gap after a field counted in units of that field's alignment)",
            "the TypeContext reference handed to the routine is uninitialised storage: any read of it would be flagged by CBMC, so 'no nested struct' is part of the bound",
            "sequences containing DiplomatOption fields and nested options are outside the bound (CBMC cannot keep a boxed discriminant concrete; probes timed out)"],
    "C16": ["the UTF-8 reference recogniser (harness/rt_lib/src/utf8_ref.rs, written from Unicode Table 3-7) is the oracle; it is validated natively against std on all 0..3-byte strings and all 4-byte strings with lead EE..F5 by setup_cmd (cargo test)",
            "str harnesses assume the bytes are accepted by core::str::from_utf8 (documented invariant of DiplomatUtf8StrSlice)"],
    "C03": ["Tok payload: drop counter + owned heap cell, so a double drop is both a counter mismatch and a CBMC double free",
            "boxed slices are built from fixed-size arrays selected by a symbolic length (not Vec::push loops)",
            "foreign-side halves (C++ unique_ptr, finalizers) are outside; see MANIFEST level_note"],
    "C10": ["payload types are plain data; drop behaviour is C03's"],
    "C12": ["C++ half: _flush, _grow and WriteFromString are translated statement by statement (lib/cppwriter.py, a pattern translator for the statement forms that occur; "
            "anything else is inconclusive) from the diplomat_runtime.hpp the tool generates on this run; std::string is replaced by the model in harness/rt_main/src/cpp_string_model.rs "
            "(resize/length/capacity/operator[] per the C++ standard, symbolic over-allocation 0..2, initial small-string capacity 0..2); 2 (quick) / 3 (thorough) ASCII chunks of 0..3 bytes",
            "caller-supplied grow() obeys the documented contract only: on success a fresh buffer of requested size (+0..k), old bytes copied, old buffer freed; on failure no state change",
            "chunks are ASCII bytes or single encoded chars (valid UTF-8 by construction, so from_utf8_unchecked is sound)",
            "len + s.len() overflow (needs a chunk of ~2^63 bytes) and buf_size == 0 are outside the bound"],
}


def prepare_rt_root():
    """rt_main's crate root is the runtime's own lib.rs, re-rooted: inner crate attributes dropped and every
    `mod x;` pointed at the repository's file, so `crate::...` paths inside the runtime sources resolve as they do upstream."""
    import re
    src = open(os.path.join(REPO, "runtime", "src", "lib.rs")).read()
    lines = []
    for line in src.split("\n"):
        st = line.strip()
        if st.startswith("#![") or st.startswith("//!"):
            continue
        m = re.fullmatch(r"(\s*)((?:pub(?:\([^)]*\))?\s+)?)mod\s+(\w+)\s*;", line)
        if m:
            line = '%s#[path = "%s/runtime/src/%s.rs"]\n%s%smod %s;' % (m.group(1), REPO, m.group(3), m.group(1), m.group(2), m.group(3))
        lines.append(line)
    os.makedirs(os.path.join(CACHE, "gen"), exist_ok=True)
    with open(os.path.join(CACHE, "gen", "rt_root.rs"), "w") as fh:
        fh.write("// generated on every run by /verif/lib/engine_e1.py from %s/runtime/src/lib.rs\n" % REPO + "\n".join(lines))


def prepare_rt_protos(out, prop):
    """C01 / C12: regenerate the C runtime header with the working tree's tool and generate the prototype harnesses
    (lib/rtprotos.py). Returns True when the generated module is in place."""
    import cfront
    import engine_e2
    import rtprotos
    d = os.path.join(CACHE, "gen", "c_runtime")
    shutil.rmtree(d, ignore_errors=True)
    os.makedirs(os.path.join(d, "src"))
    lib = os.path.join(d, "src", "lib.rs")
    with open(lib, "w") as fh:
        fh.write("#[diplomat::bridge]\npub mod ffi {\n    use diplomat_runtime::DiplomatWrite;\n    #[diplomat::opaque]\n    pub struct W(u8);\n"
                 "    impl W {\n        pub fn describe(&self, w: &mut DiplomatWrite) {}\n    }\n}\n")
    ok, log_ = engine_e2.run_tool("c", lib, os.path.join(d, "c"))
    if not ok or not os.path.exists(os.path.join(d, "c", "diplomat_runtime.h")):
        out["inconclusive"].append("runtime prototypes: diplomat-tool c failed: %s" % log_[-500:])
        return False
    cm, probs = cfront.load(os.path.join(d, "c"), d, exclude_runtime_fns=False)
    if cm is None:
        out["inconclusive"].append("runtime prototypes: the generated C headers could not be read by goto-cc: %s" % "; ".join(probs)[-800:])
        return False
    try:
        txt, statics, _hs, unvalidated = rtprotos.generate(cm, REPO, [prop.lower()], header_dir=os.path.join(d, "c"))
        out["inconclusive"] += ["runtime prototypes: " + u for u in unvalidated]
    except Exception as e:       # a shape outside what the generator walks: no verdict, never an alarm
        out["inconclusive"].append("runtime prototypes: generator could not walk the declarations: %r" % e)
        return False
    with open(os.path.join(CACHE, "gen", "rt_protos_gen.rs"), "w") as fh:
        fh.write(txt)
    rd = os.path.join(VERIF, "replays", prop)
    for subject, msg in statics:
        os.makedirs(rd, exist_ok=True)
        path = os.path.join(rd, "static_rtproto_%s.txt" % re.sub(r"\W", "_", subject))
        with open(path, "w") as fh:
            fh.write("%s\n\nheader: %s\nreproduce: run `diplomat-tool c <out> --entry %s` and compare the prototype in <out>/diplomat_runtime.h "
                     "with runtime/src/*.rs\n\n%s\n" % (msg, os.path.join(d, "c", "diplomat_runtime.h"), lib,
                                                       "\n".join(l for l in cm.header_text.get("diplomat_runtime.h", "").split("\n") if "diplomat_" in l and "(" in l)))
        out.setdefault("violations", []).append(("static:rtproto:" + subject, path, msg))
    return True


def prepare_cpp_writer(out):
    """C12: regenerate the C++ runtime header with the working tree's tool and translate its writer callbacks."""
    import cppwriter
    import engine_e2
    d = os.path.join(CACHE, "gen", "cpp_runtime")
    shutil.rmtree(d, ignore_errors=True)
    os.makedirs(os.path.join(d, "src"))
    lib = os.path.join(d, "src", "lib.rs")
    with open(lib, "w") as fh:
        fh.write("#[diplomat::bridge]\npub mod ffi {\n    use diplomat_runtime::DiplomatWrite;\n    #[diplomat::opaque]\n    pub struct W(u8);\n"
                 "    impl W {\n        pub fn describe(&self, w: &mut DiplomatWrite) {}\n    }\n}\n")
    ok, log_ = engine_e2.run_tool("cpp", lib, os.path.join(d, "cpp"))
    hpp = os.path.join(d, "cpp", "diplomat_runtime.hpp")
    if not ok or not os.path.exists(hpp):
        out["inconclusive"].append("C++ half: diplomat-tool cpp failed: %s" % log_[-500:])
        return False
    try:
        cppwriter.generate(hpp, os.path.join(CACHE, "gen", "cpp_writer_gen.rs"))
    except cppwriter.Untranslatable as e:
        out["inconclusive"].append("C++ half: the writer callbacks of the generated diplomat_runtime.hpp are outside the translator's statement forms: %s" % e)
        return False
    return True


def run(prop):
    """Returns dict(results=[HarnessResult], crates=[...], logs=..., inconclusive=[...])."""
    feats = ["thorough"] if tier() == "thorough" else None
    prefix = prop.lower() + "_"
    out = {"results": [], "crate_of": {}, "inconclusive": [], "tools": {}, "wall": 0.0}
    ht = 3000 if tier() == "thorough" else 900
    prepare_rt_root()
    if prop == "C12" and prepare_cpp_writer(out):
        feats = (feats or []) + ["cppwriter"]
    if prop in ("C01", "C12") and prepare_rt_protos(out, prop):
        feats = (feats or []) + ["rtprotos"]
    for crate, tag, serves, needs_lock in CRATES:
        if prop not in serves:
            continue
        if REPO != "/repo":
            # the harness crates name the repository by absolute path; for a relocated repository (VERIF_REPO) work on a copy
            reloc = os.path.join(CACHE, "gen", "e1_" + tag)
            shutil.rmtree(reloc, ignore_errors=True)
            shutil.copytree(crate, reloc, ignore=shutil.ignore_patterns("target", "Cargo.lock"))
            for root, _, files in os.walk(reloc):
                for f in files:
                    if f.endswith((".rs", ".toml")):
                        pth = os.path.join(root, f)
                        txt = open(pth).read()
                        txt2 = txt.replace('"/repo/', '"%s/' % REPO).replace("../../../cache/", CACHE + "/")
                        if txt2 != txt:
                            open(pth, "w").write(txt2)
            crate = reloc
        lock = os.path.join(crate, "Cargo.lock")
        if needs_lock:
            shutil.copyfile(os.path.join(REPO, "Cargo.lock"), lock)
        # C03 also asks CBMC for leak freedom ("dynamically allocated memory never freed")
        # (-Z stubbing: c03_layout replaces std's allocation entry points by layout-recording wrappers)
        extra = ["-Z", "stubbing", "--cbmc-args", "--memory-leak-check"] if prop == "C03" else None
        res, tools, log_, ok, wall = kani_run(crate, tag, filters=[prefix], features=feats, harness_timeout=ht, extra_args=extra)
        out["wall"] += wall
        out["tools"] = tools or out["tools"]
        if not ok:
            out["inconclusive"].append("crate %s did not build/verify: %s" % (tag, compile_error_summary(log_) or log_[-1500:]))
            continue
        for name, r in res.items():
            if not (name.startswith(prefix) or ("::" + prefix) in name):
                continue
            if r.status == "missing":
                continue
            r.features = list(feats) if feats else None
            out["results"].append(r)
            out["crate_of"][name] = crate
    return out
