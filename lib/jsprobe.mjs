// Probe of the JS bindings diplomat-tool emitted for a struct module (C08).
// Usage: node jsprobe.mjs <spec.json>   (cwd = directory with the generated .mjs files)
// The generated modules import "./diplomat-wasm.mjs"; the caller replaces it with a stub that re-exports
// globalThis.__verif_wasm, which this script sets up: exported functions record their arguments, memory is a
// real ArrayBuffer.  Nothing here knows the expected layout; it only reports what the emitted code does:
//   write:  which bytes of the buffer change when one leaf changes (and the byte image of two leaf values)
//   read:   which bytes of memory a leaf's value depends on, and how all-ones / pattern bytes are interpreted
//   args:   the flattened argument list a by-value struct parameter produces (leaf tokens / padding)
//   recv:   size and alignment of the receive buffer allocated for a by-value struct return
import { readFileSync } from "node:fs";
const spec = JSON.parse(readFileSync(process.argv[2], "utf8"));
const MEM = new ArrayBuffer(4096);
const calls = [];
const allocs = [];
const allocLog = [];
let nextAlloc = 1024;
const wasm = new Proxy({ memory: { buffer: MEM }, __hook: null }, {
  set(t, name, v) { t[name] = v; return true; },
  get(t, name) {
    if (name in t) return t[name];
    if (name === "diplomat_alloc") return (size, align) => { allocs.push([size, align]); let p = nextAlloc; nextAlloc += 256; if (nextAlloc > 3800) nextAlloc = 1024; allocLog.push([size, align, p]); return p; };
    if (name === "diplomat_free") return () => {};
    if (name === "then") return undefined;
    return (...args) => { if (t.__hook) t.__hook(String(name)); calls.push({ name: String(name), args: args.map(a => (typeof a === "bigint" ? "n" + a.toString() : a)) }); return 0; };
  }
});
globalThis.__verif_wasm = wasm;
const rt = await import(process.cwd() + "/diplomat-runtime.mjs");
const mods = {};
for (const n of Object.keys(spec.structs).concat(Object.keys(spec.slice_structs || {})).concat(Object.keys(spec.enums)).concat([spec.opaque])) {
  mods[n] = (await import(process.cwd() + "/" + n + ".mjs"))[n];
}
function mkOpaque(ty, ptr) { return new mods[ty](rt.internalConstructor, ptr, [1]); }
function leafDefault(l) {
  if (l.kind === "opaque") return l.optional ? null : mkOpaque(l.ty, 0);
  if (l.kind === "enum") return mods[l.ty][l.variants[0][0]];
  if (l.ty === "bool") return false;
  if (l.ty === "i64" || l.ty === "u64") return 0n;
  return 0;
}
function build(sname, assign, prefix) {
  // assign: {leafPath: value}; option fields: path + "?" => present flag
  const o = {};
  for (const f of spec.structs[sname].fields) {
    const path = prefix + f.name;
    if (f.kind === "struct") o[f.name] = build(f.ty, assign, path + ".");
    else if (f.kind === "opt") {
      if (!assign[path + "?"]) { o[f.name] = null; continue; }
      const inner = f.inner;
      if (inner.kind === "struct") o[f.name] = build(inner.ty, assign, path + ".");
      else o[f.name] = (path in assign) ? assign[path] : leafDefault(inner);
    } else o[f.name] = (path in assign) ? assign[path] : leafDefault(f);
  }
  return new mods[sname](o);
}
function leaves(sname, prefix, out, optPath) {
  for (const f of spec.structs[sname].fields) {
    const path = prefix + f.name;
    if (f.kind === "struct") leaves(f.ty, path + ".", out, optPath);
    else if (f.kind === "opt") {
      out.push({ path: path + "?", kind: "flag", opt: optPath });
      const op = (optPath || []).concat([path + "?"]);
      if (f.inner.kind === "struct") leaves(f.inner.ty, path + ".", out, op);
      else out.push({ path, kind: f.inner.kind, ty: f.inner.ty, variants: f.inner.variants, opt: op });
    } else out.push({ path, kind: f.kind, ty: f.ty, variants: f.variants, opt: optPath, optional: f.optional });
  }
  return out;
}
function altValues(l) {
  // two values whose little-endian images differ from zero in every byte (where the type allows)
  if (l.kind === "enum") return l.variants.slice(1).map(v => ({ js: mods[l.ty][v[0]], tok: "enum:" + v[0] })).slice(0, 2);
  if (l.kind === "opaque") return [{ js: mkOpaque(l.ty, 0x44332211), tok: "ptr:" + 0x44332211 }, { js: mkOpaque(l.ty, 0xFFFFFFFF), tok: "ptr:" + 0xFFFFFFFF }];
  const t = l.ty;
  const ints = { u8: 8, i8: 8, u16: 16, i16: 16, u32: 32, i32: 32, DiplomatChar: 32, DiplomatByte: 8, usize: 32, isize: 32 };
  if (t === "bool") return [{ js: true, tok: "true" }];
  if (t in ints) {
    const w = ints[t];
    const signed = t[0] === "i";
    const pat = [0x11, 0x22, 0x33, 0x44].slice(0, w / 8).reduce((a, b, i) => a + b * 2 ** (8 * i), 0);
    const allones = signed ? -1 : 2 ** w - 1;
    return [{ js: pat, tok: String(pat) }, { js: allones, tok: String(allones) }];
  }
  if (t === "u64" || t === "i64") {
    const pat = 0x1122334455667788n;
    const allones = t === "i64" ? -1n : 0xFFFFFFFFFFFFFFFFn;
    return [{ js: pat, tok: "n" + pat }, { js: allones, tok: "n" + allones }];
  }
  if (t === "f32") return [{ js: new Float32Array(new Uint32Array([0x41424344]).buffer)[0], tok: "f32bits:41424344" }];
  if (t === "f64") return [{ js: new Float64Array(new BigUint64Array([0x4142434445464748n]).buffer)[0], tok: "f64bits:4142434445464748" }];
  throw new Error("unsupported leaf type " + t);
}
function presentFlags(l) { const a = {}; for (const p of (l.opt || [])) a[p] = true; return a; }
function show(v) {
  if (v === null || v === undefined) return null;
  if (typeof v === "bigint") return "n" + v.toString();
  if (typeof v === "number") return Number.isNaN(v) ? "NaN" : v;
  if (typeof v === "boolean") return v;
  if (typeof v === "object" && "ffiValue" in v && "value" in v) return "enum:" + v.value;
  if (typeof v === "object" && "ffiValue" in v) return "ptr:" + v.ffiValue;
  return String(v);
}
function getLeaf(obj, path) {
  let cur = obj;
  for (const part of path.replace("?", "").split(".")) { if (cur === null || cur === undefined) return cur; cur = cur[part]; }
  return cur;
}
const out = { structs: {}, errors: [] };
for (const sname of Object.keys(spec.structs)) {
  const S = mods[sname];
  const ls = leaves(sname, "", [], null);
  const res = { write: {}, read: {}, args: null, recv: null, written0: null };
  const SIZE = 160;
  // ---- write side -------------------------------------------------------------------------------
  try {
    const writeImg = (assign) => { const buf = new ArrayBuffer(SIZE); new Uint8Array(buf).fill(0xAA); build(sname, assign, "")._writeToArrayBuffer(buf, 16, new rt.CleanupArena(), {}); return Array.from(new Uint8Array(buf)); };
    const allPresent = {}; for (const l of ls) if (l.kind === "flag") allPresent[l.path] = true;
    const base = writeImg(allPresent);
    res.written0 = base.map((b, i) => (b !== 0xAA ? i - 16 : null)).filter(x => x !== null);
    for (const l of ls) {
      if (l.kind === "flag") {
        const a = Object.assign({}, allPresent); delete a[l.path];
        const img = writeImg(a);
        res.write[l.path] = { changed: img.map((b, i) => (b !== base[i] ? i - 16 : null)).filter(x => x !== null), present: base.filter((b, i) => b !== img[i]), absent: img.filter((b, i) => b !== base[i]) };
        continue;
      }
      const r = [];
      for (const av of altValues(l)) {
        const a = Object.assign({}, allPresent); a[l.path] = av.js;
        const img = writeImg(a);
        const ch = img.map((b, i) => (b !== base[i] ? i - 16 : null)).filter(x => x !== null);
        r.push({ value: av.tok, changed: ch, bytes: ch.map(i => img[i + 16]) });
      }
      res.write[l.path] = r;
    }
  } catch (e) { out.errors.push(sname + " write: " + e); }
  // ---- read side --------------------------------------------------------------------------------
  try {
    const PTR = 512;
    const mem = new Uint8Array(MEM);
    const flagOffsets = {};
    const readAll = () => S._fromFFI(rt.internalConstructor, PTR, [1], [1], [1], [1]);   // extra arguments: lifetime edge arrays of borrowing structs
    const sizeGuess = 96;
    // 1. locate option flags: the byte that makes the field non-null when set to 1
    for (const l of ls) if (l.kind === "flag") {
      let found = [];
      for (let j = 0; j < sizeGuess; j++) {
        mem.fill(0, PTR - 16, PTR + sizeGuess + 16);
        for (const p of (l.opt || [])) if (p in flagOffsets) mem[PTR + flagOffsets[p]] = 1;
        mem[PTR + j] = 1;
        let v; try { v = getLeaf(readAll(), l.path); } catch (e) { v = undefined; }
        if (v !== null && v !== undefined) found.push(j);
      }
      flagOffsets[l.path] = found.length ? found[0] : -1;
      res.read[l.path] = { flag_offsets: found };
    }
    // 2. dependency set and interpretation of every value leaf
    for (const l of ls) if (l.kind !== "flag") {
      const prep = () => { mem.fill(0, PTR - 16, PTR + sizeGuess + 16); for (const p of (l.opt || [])) if (flagOffsets[p] >= 0) mem[PTR + flagOffsets[p]] = 1; };
      prep();
      let v0; try { v0 = show(getLeaf(readAll(), l.path)); } catch (e) { v0 = "throws"; }
      const dep = [];
      for (let j = -8; j < sizeGuess; j++) {
        prep();
        if ((l.opt || []).some(p => flagOffsets[p] === j)) continue;
        mem[PTR + j] = (l.ty === "bool") ? 1 : 0x7F;
        let v; try { v = show(getLeaf(readAll(), l.path)); } catch (e) { v = "throws"; }
        if (v !== v0 && !(v === "NaN" && v0 === "NaN")) dep.push(j);
      }
      // interpretation: all-ones in the dependency bytes
      prep();
      for (const j of dep) mem[PTR + j] = 0xFF;
      let ones; try { ones = show(getLeaf(readAll(), l.path)); } catch (e) { ones = "throws"; }
      // pattern bytes 0x11,0x22,.. in dependency order
      prep();
      dep.forEach((j, k) => { mem[PTR + j] = 0x11 * (k + 1); });
      let pat; try { pat = show(getLeaf(readAll(), l.path)); } catch (e) { pat = "throws"; }
      let enumReads = null;
      if (l.kind === "enum") {
        // at which offsets does a stored discriminant read back as its own variant?
        enumReads = {};
        for (const [vn, vv] of l.variants) {
          const hits = [];
          // background bytes that do not form any variant's discriminant (all-zero memory would read as a
          // zero-valued variant at every offset)
          let fillByte = 0x5A;
          const isDisc = (b) => l.variants.some(([_, d]) => (d >>> 0) === ((b * 0x01010101) >>> 0));
          while (isDisc(fillByte)) fillByte++;
          for (let j = 0; j + 4 <= sizeGuess; j++) {
            prep();
            mem.fill(fillByte, PTR, PTR + sizeGuess);
            for (const p of (l.opt || [])) if (flagOffsets[p] >= 0) mem[PTR + flagOffsets[p]] = 1;
            if ((l.opt || []).some(p => flagOffsets[p] >= j && flagOffsets[p] < j + 4)) continue;
            new DataView(MEM).setInt32(PTR + j, vv, true);
            let v; try { v = show(getLeaf(readAll(), l.path)); } catch (e) { v = "throws"; }
            if (v === "enum:" + vn) hits.push(j);
          }
          enumReads[vn] = hits;
        }
      }
      res.read[l.path] = { zero: v0, dep, ones, pat, enumReads };
    }
  } catch (e) { out.errors.push(sname + " read: " + e); }
  // ---- argument list and receive buffer ----------------------------------------------------------
  try {
    const meth = spec.methods[sname];
    if (meth) {
      const O = mods[spec.opaque];
      const fn = Object.getOwnPropertyNames(O).find(n => n.toLowerCase().replace(/_/g, "") === meth.js.toLowerCase().replace(/_/g, ""));
      const tok = (a) => (typeof a === "bigint" ? "n" + a.toString() : a);
      const runWith = (mode) => {
        // mode: "sentinel" (distinct non-zero leaves, options present), "zero" (all leaves zero/false, options present), "absent" (options null)
        const assign = {}; const tokens = {};
        let k = 0;
        for (const l of ls) {
          if (l.kind === "flag") { if (mode !== "absent") assign[l.path] = true; continue; }
          k++;
          if (mode === "sentinel") {
            if (l.kind === "enum") { const v = l.variants[l.variants.length - 1]; assign[l.path] = mods[l.ty][v[0]]; tokens[l.path] = v[1]; }
            else if (l.kind === "opaque") { assign[l.path] = mkOpaque(l.ty, 7000 + k); tokens[l.path] = 7000 + k; }
            else if (l.ty === "bool") { assign[l.path] = true; tokens[l.path] = true; }
            else if (l.ty === "u64" || l.ty === "i64") { assign[l.path] = BigInt(100 + k); tokens[l.path] = "n" + (100 + k); }
            else if (l.ty === "f32" || l.ty === "f64") { assign[l.path] = 100.5 + k; tokens[l.path] = 100.5 + k; }
            else { assign[l.path] = 100 + k; tokens[l.path] = 100 + k; }
          } else {
            const d = leafDefault(l);
            assign[l.path] = d;
            tokens[l.path] = (l.kind === "enum") ? l.variants[0][1] : (l.kind === "opaque") ? 0 : tok(d);
          }
        }
        calls.length = 0; allocs.length = 0; allocLog.length = 0;
        new Uint8Array(MEM).fill(0xAA, 1024, 4096);
        try { O[fn](build(sname, assign, "")); } catch (e) { /* conversion of the (all-zero) return value may throw; the call is already recorded */ }
        const c = calls.find(c => c.name === meth.symbol);
        const images = {};
        for (const [sz, al, p] of allocLog) images[p] = { size: sz, align: al, bytes: Array.from(new Uint8Array(MEM, p, Math.min(sz, 200))) };
        return { args: c ? c.args : null, tokens, recv: allocs.slice(), images };
      };
      const a = runWith("sentinel");
      res.args = a.args; res.tokens = a.tokens; res.recv = a.recv; res.images = a.images;
      res.args_zero = runWith("zero");
      if (ls.some(l => l.kind === "flag")) res.args_absent = runWith("absent");
    }
  } catch (e) { out.errors.push(sname + " args: " + e); }
  out.structs[sname] = res;
}
// ---- flat structs with slice / string fields ---------------------------------------------------------
// (values and the memory image to read back from are supplied by the caller; nothing here knows the layout)
out.slice_structs = {};
for (const [sname, d] of Object.entries(spec.slice_structs || {})) {
  const S = mods[sname];
  const res = { has_method: !!d.method };
  const dec = (v) => (typeof v === "string" && v[0] === "n") ? BigInt(v.slice(1)) : (v && typeof v === "object" && "str" in v) ? v.str : (v && typeof v === "object" && "arr" in v) ? v.arr.map(dec) : v;
  const mk = () => { const o = {}; for (const f of d.fields) o[f.name] = dec(f.value); return new S(o); };
  const showv = (v) => Array.isArray(v) ? v.map(showv) : (v && typeof v === "object" && typeof v.length === "number" && typeof v !== "string") ? Array.from(v).map(showv) : show(v);
  const snapshot = () => { const images = {}; for (const [sz, al, p] of allocLog) images[p] = { size: sz, align: al, bytes: Array.from(new Uint8Array(MEM, p, Math.min(sz, 200))) }; return images; };
  try {
    allocs.length = 0; allocLog.length = 0; nextAlloc = 1024;
    new Uint8Array(MEM).fill(0xAA, 1024, 4096);
    const buf = new ArrayBuffer(160); new Uint8Array(buf).fill(0xAA);
    mk()._writeToArrayBuffer(buf, 16, new rt.CleanupArena(), { aAppendArray: [[]] });
    res.write = { img: Array.from(new Uint8Array(buf)), images: snapshot() };
  } catch (e) { out.errors.push(sname + " slice write: " + e); }
  try {
    const mem = new Uint8Array(MEM);
    mem.fill(0, 496, 1024);
    mem.set(d.read.struct_bytes, 512);
    for (const [addr, bytes] of d.read.data) mem.set(bytes, addr);
    const o = S._fromFFI(rt.internalConstructor, 512, [1], [1], [1]);
    res.read = {};
    for (const f of d.fields) res.read[f.name] = showv(o[f.name]);
  } catch (e) { out.errors.push(sname + " slice read: " + e); }
  try {
    if (d.method) {
      const O = mods[spec.opaque];
      const fn = Object.getOwnPropertyNames(O).find(n => n.toLowerCase().replace(/_/g, "") === d.method.js.toLowerCase().replace(/_/g, ""));
      calls.length = 0; allocs.length = 0; allocLog.length = 0; nextAlloc = 1024;
      new Uint8Array(MEM).fill(0xAA, 1024, 4096);
      // snapshot the buffers at the moment of the call: the wrapper frees / reuses them afterwards
      let atCall = null;
      const orig = wasm[d.method.symbol];
      wasm.__hook = (name) => { if (name === d.method.symbol && atCall === null) atCall = snapshot(); };
      try { O[fn](mk()); } catch (e) { /* decoding the stub's untouched receive buffer may throw; the call is already recorded */ }
      wasm.__hook = null;
      const c = calls.find(c => c.name === d.method.symbol);
      res.args = c ? c.args : null; res.images = atCall || snapshot(); res.recv = allocs.slice();
    }
  } catch (e) { out.errors.push(sname + " slice args: " + e); }
  out.slice_structs[sname] = res;
}
// ---- receive buffers of fallible / optional returns -------------------------------------------------
out.result_returns = {};
for (const [jsname, symbol] of (spec.result_methods || [])) {
  const O = mods[spec.opaque];
  const fn = Object.getOwnPropertyNames(O).find(n => n.toLowerCase().replace(/_/g, "") === jsname.toLowerCase().replace(/_/g, ""));
  allocs.length = 0; allocLog.length = 0;
  new Uint8Array(MEM).fill(0, 1024, 4096);
  try { O[fn](); } catch (e) { /* decoding the stub's all-zero result may throw; the allocation is already recorded */ }
  out.result_returns[jsname] = allocs.slice();
}
console.log(JSON.stringify(out));
