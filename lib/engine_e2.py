"""E2/E3(C): generated bridge crates compiled with the real proc macro, checked against the C
headers that the real diplomat-tool generates from the same file (DESIGN.md 2.1, 3)."""
import json
import os
import time

from vlib import *
import bridgegen
import cfront
import hgen_c

TOOL_TARGET = os.path.join(CACHE, "target-host")
GEN_ROOT = os.path.join(CACHE, "gen")

CARGO_TOML = """[package]
name = "bridge_%s"
version = "0.0.0"
edition = "2021"
[lib]
path = "src/lib.rs"
[dependencies]
diplomat = { path = "%s/macro" }
diplomat-runtime = { path = "%s/runtime" }
[workspace]
[lints.rust]
unexpected_cfgs = { level = "allow" }
"""

_tool_built = {}


def build_tool():
    """diplomat-tool built from /repo's working tree (incremental, own target dir)."""
    if "bin" in _tool_built:
        return _tool_built["bin"], ""
    env = dict(ENV)
    env["CARGO_TARGET_DIR"] = TOOL_TARGET
    rc, out = sh(["cargo", "build", "-p", "diplomat-tool", "--offline"], cwd=REPO, env=env, timeout=3600)
    b = os.path.join(TOOL_TARGET, "debug", "diplomat-tool")
    if rc != 0 or not os.path.exists(b):
        return None, out[-3000:]
    _tool_built["bin"] = b
    return b, ""


def run_tool(backend, entry, outdir, extra=None):
    b, err = build_tool()
    if b is None:
        return False, "diplomat-tool does not build: " + err
    shutil.rmtree(outdir, ignore_errors=True)
    env = dict(ENV)
    env["RUST_BACKTRACE"] = "0"
    rc, out = sh([b, backend, outdir, "--entry", entry] + (extra or []), cwd=os.path.dirname(entry), env=env, timeout=600)
    ok = rc == 0 and os.path.isdir(outdir) and "Lowering error" not in out and "panicked" not in out
    return ok, out[-3000:]


def modules_for(tier_, seed_):
    mods = [f() for f in bridgegen.M0]
    if tier_ == "thorough":
        for i in range(12):
            mods.append(bridgegen.random_module(seed_, i))
    else:
        for i in range(2):
            mods.append(bridgegen.random_module(seed_, i))
    return mods


class StaticFinding:
    """A declaration-level disagreement (no values involved): reported like a failed harness."""

    def __init__(self, module, subject, message, tags, replay_text):
        self.module, self.subject, self.message, self.tags, self.replay_text = module, subject, message, tags, replay_text


def prepare_module(mod, steps):
    """Generate crate + headers + harnesses. Returns dict or raises RuntimeError(inconclusive reason)."""
    d = os.path.join(GEN_ROOT, mod.name)
    shutil.rmtree(d, ignore_errors=True)
    os.makedirs(os.path.join(d, "src"))
    with open(os.path.join(d, "Cargo.toml"), "w") as fh:
        fh.write(CARGO_TOML % (mod.name, REPO, REPO))
    shutil.copyfile(os.path.join(REPO, "Cargo.lock"), os.path.join(d, "Cargo.lock"))
    shutil.copyfile(os.path.join(VERIF, "harness", "bridge_support", "vsupport.rs"), os.path.join(d, "src", "vsupport.rs"))
    lib = os.path.join(d, "src", "lib.rs")
    with open(lib, "w") as fh:
        fh.write(mod.emit_lib())
    ok, out = run_tool("c", lib, os.path.join(d, "c"))
    if not ok:
        raise RuntimeError("diplomat-tool c rejected or crashed on generated module %s (generator bug or tool regression): %s" % (mod.name, out[-1500:]))
    cm, probs = cfront.load(os.path.join(d, "c"), d)
    if cm is None:
        raise RuntimeError("C front end failed on the headers of %s: %s" % (mod.name, probs))
    gen = hgen_c.generate_all(mod, cm, steps=steps)
    with open(lib, "w") as fh:
        fh.write(mod.emit_lib(harness_text=gen["text"], mirror_text=gen["mirror"]))
    with open(os.path.join(d, "harnesses.json"), "w") as fh:
        json.dump(gen["harnesses"], fh, indent=1)
    return {"dir": d, "cm": cm, "gen": gen, "problems": probs}


DIALECTS = {
    "dart": {"backend": "dart", "extra": [], "front": "dartfront",
             "dialect": {"name": "dart", "mod": "md", "flag": "isOk", "slice": ("_data", "_length"), "prefix": "c07d", "tags": ["C07"]},
             # known crash of the Dart back end (unreachable!() for Option<slice> parameters): kept out of the profile
             "pred": lambda m: not any(isinstance(t, bridgegen.Callback) or bridgegen.any_type(t, lambda x: isinstance(x, bridgegen.Opt) and isinstance(x.inner, (bridgegen.Slice, bridgegen.Str))) or isinstance(t, bridgegen.StrSlice)
                                       for _, t in m.params)},
    "kotlin": {"backend": "kotlin", "extra": ["--config", "kotlin.domain=dev.verif", "--config", "lib_name=bridge"], "front": "kotlinfront",
               "dialect": {"name": "kotlin", "mod": "mk", "flag": "isOk", "slice": ("data", "len"), "prefix": "c07k", "tags": ["C07"]},
               # Option<slice> parameters hit an unreachable!() in kotlin/mod.rs::gen_native_type_name (a C15 matter): kept out of the profile
               "pred": lambda m: not any(isinstance(t, (bridgegen.Callback, bridgegen.StrSlice)) or bridgegen.any_type(t, lambda x: isinstance(x, bridgegen.Opt) and isinstance(x.inner, (bridgegen.Slice, bridgegen.Str)))
                                         for _, t in m.params)},
}


def prepare_dialect(mod, which):
    """Fit `mod` to the back end's feature profile, generate its bindings, parse the native
    declarations into a CModel and generate harnesses against it."""
    spec = DIALECTS[which]
    cur = bridgegen.filtered(mod, method_pred=spec["pred"], suffix="_" + which)
    d = os.path.join(GEN_ROOT, cur.name)
    fitted_out = []
    for attempt in range(6):
        shutil.rmtree(d, ignore_errors=True)
        os.makedirs(os.path.join(d, "src"))
        with open(os.path.join(d, "Cargo.toml"), "w") as fh:
            fh.write(CARGO_TOML % (cur.name, REPO, REPO))
        shutil.copyfile(os.path.join(REPO, "Cargo.lock"), os.path.join(d, "Cargo.lock"))
        shutil.copyfile(os.path.join(VERIF, "harness", "bridge_support", "vsupport.rs"), os.path.join(d, "src", "vsupport.rs"))
        lib = os.path.join(d, "src", "lib.rs")
        with open(lib, "w") as fh:
            fh.write(cur.emit_lib())
        ok, out = run_tool(spec["backend"], lib, os.path.join(d, which), spec["extra"])
        if ok:
            break
        dm = set(re.findall(r"Lowering error in (\w+)::(\w+):", out))
        dt = set(re.findall(r"Lowering error in (\w+):(?!:)", out))
        if not dm and not dt:
            raise RuntimeError("diplomat-tool %s crashed on generated module %s: %s" % (which, cur.name, out[-1200:]))
        fitted_out += sorted("%s::%s" % x for x in dm) + sorted(dt)
        name = cur.name
        cur = bridgegen.filtered(cur, drop_methods=dm, drop_types=dt)
        cur.name = name
    else:
        raise RuntimeError("could not fit module %s to the %s profile" % (mod.name, which))
    front = __import__(spec["front"])
    cm, probs = front.load(os.path.join(d, which))
    mism = [x for x in probs if x.startswith("MISMATCH")]
    probs = [x for x in probs if not x.startswith("MISMATCH")]
    if probs:
        raise RuntimeError("%s front end did not recognise everything in the bindings of %s: %s" % (which, cur.name, probs[:5]))
    cm.dialect = spec["dialect"]
    gen = hgen_c.generate_dialect(cur, cm)
    for x in mism:
        gen["static"].append((re.sub(r"\W+", "_", x)[:60], x[len("MISMATCH "):], ["C07"]))
    with open(lib, "w") as fh:
        fh.write(cur.emit_lib(harness_text=gen["text"], mirror_text=gen["mirror"], mirror_mod=spec["dialect"]["mod"]))
    return {"dir": d, "cm": cm, "gen": gen, "problems": probs, "mod": cur, "fitted_out": fitted_out}


def static_replay_text(mod, prep, subject, message):
    cm = prep["cm"]
    lines = ["STATIC DISAGREEMENT between the Rust bridge module and the generated C header", "",
             "module: %s (%s/src/lib.rs)" % (mod.name, prep["dir"]), "subject: %s" % subject, "finding: %s" % message, ""]
    fn = subject.split(" ")[0]
    if fn in cm.functions:
        lines.append("C prototype (from %s): %s" % (cm.functions[fn]["file"], cfront.proto_text(cm, fn)))
    for m in mod.methods:
        if m.abi_name() == fn:
            lines.append("Rust method:\n" + mod.emit_method(m).split("{")[0])
    lines.append("")
    lines.append("Reproduce: cd %s && <diplomat-tool> c c --entry src/lib.rs ; compare the declaration above with src/lib.rs" % prep["dir"])
    return "\n".join(lines)


def validate_fronts():
    """Translator validation: the Dart/Kotlin front ends must recognise every declaration in the
    repository's own checked-in outputs."""
    import dartfront
    import kotlinfront
    probs = []
    n = 0
    for d in ("feature_tests/dart/lib/src", "example/dart/lib/src"):
        pth = os.path.join(REPO, d)
        if os.path.isdir(pth):
            m, pr = dartfront.load(pth)
            probs += ["dart front end on %s: %s" % (d, x) for x in pr]
            n += len(m.functions) + len(m.structs)
    for d in ("feature_tests/kotlin", "example/kotlin"):
        pth = os.path.join(REPO, d)
        if os.path.isdir(pth):
            m, pr = kotlinfront.load(pth)
            # callback / trait runner classes are outside the module family
            pr = [x for x in pr if not re.search(r"Runner_|tag-Callback|DiplomatCallback|DiplomatTrait", x)]
            probs += ["kotlin front end on %s: %s" % (d, x) for x in pr]
            n += len(m.functions) + len(m.structs)
    return n, probs


def run_dialects(prop):
    out = {"results": [], "crate_of": {}, "inconclusive": [], "violations": [], "known": [], "coverage": {}}
    mods = modules_for(tier(), seed())
    if tier() == "quick":
        mods = [m_ for m_ in mods if not m_.name.startswith("mr_")][:] + [m_ for m_ in mods if m_.name.startswith("mr_")][:1]
    replay_dir = os.path.join(VERIF, "replays", prop)
    programs = []
    n_static = 0
    ncorpus, probs = validate_fronts()
    out["inconclusive"] += probs
    for mod in mods:
        if mod.name == "m0_callbacks":
            continue
        for which in ("dart", "kotlin"):
            try:
                prep = prepare_dialect(mod, which)
            except RuntimeError as e:
                msg = str(e)
                if "MISMATCH" in msg:
                    out["violations"].append(("static:%s:%s" % (mod.name, which), "", msg))
                else:
                    out["inconclusive"].append(msg)
                continue
            gen = prep["gen"]
            wanted = sorted(gen["harnesses"])
            for subject, message, tags in gen["static"]:
                n_static += 1
                os.makedirs(replay_dir, exist_ok=True)
                path = os.path.join(replay_dir, "static_%s_%s_%s.txt" % (mod.name, which, re.sub(r"\W+", "_", subject)))
                with open(path, "w") as fh:
                    fh.write("STATIC DISAGREEMENT between the Rust bridge module and the generated %s bindings\n\nmodule: %s (%s)\nsubject: %s\nfinding: %s\n"
                             "\nReproduce: run diplomat-tool %s on %s/src/lib.rs and compare the native declaration of the subject with the Rust signature.\n"
                             % (which, prep["mod"].name, prep["dir"], subject, message, which, prep["dir"]))
                out["violations"].append(("static:%s:%s:%s" % (mod.name, which, subject), path, message))
            programs.append({"module": prep["mod"].name, "backend": which, "methods": len(prep["mod"].methods), "native_functions": len(prep["cm"].functions),
                             "native_structs": len(prep["cm"].structs), "harnesses": len(wanted), "dropped_by_profile": len(prep["fitted_out"]),
                             "skipped": prep["gen"]["skipped"]})
            if not wanted:
                continue
            ht = 1800 if tier() == "thorough" else 600
            res, tools, log_, ok, wall = kani_run(prep["dir"], "bridge", filters=["ffi::" + w for w in wanted], exact=True, harness_timeout=ht,
                                                  target_dir=os.path.join(CACHE, "target-bridge"))
            if not ok:
                out["inconclusive"].append("module %s did not build under Kani: %s" % (prep["mod"].name, compile_error_summary(log_) or log_[-1500:]))
                continue
            out["coverage"]["tools"] = tools
            for name in wanted:
                r = res.get("ffi::" + name)
                if r is None:
                    out["inconclusive"].append("%s::%s: no result" % (prep["mod"].name, name))
                    continue
                r.name = "%s::%s" % (prep["mod"].name, r.name)
                r.kani_name = "ffi::" + name
                crate = prep["dir"]

                def replayer(rr, rdir, crate=crate):
                    rep = kani_replay(crate, rr.kani_name, keep_dir=rdir)
                    src = os.path.join(rdir, "%s.playback.txt" % rr.kani_name.replace("::", "__"))
                    dst = os.path.join(rdir, "%s.playback.txt" % rr.name.replace("::", "__"))
                    if os.path.exists(src):
                        os.replace(src, dst)
                    rep["path"] = dst
                    return rep
                r.replayer = replayer
                out["results"].append(r)
    out["coverage"]["programs"] = len(programs)
    out["coverage"]["modules"] = programs
    out["coverage"]["disagreements_checked"] = len(out["results"]) + n_static
    out["coverage"]["front_end_validation"] = "%d declarations of the checked-in Dart/Kotlin outputs parsed, %d unrecognised" % (ncorpus, len(probs))
    out["coverage"]["extra_assumptions"] = [
        "E3(Dart/Kotlin): native declarations are read by /verif/lib/dartfront.py and kotlinfront.py (trusted, validated on every run against the repository's checked-in outputs); "
        "struct layout is derived by rustc from the declared member order and types (#[repr(C)] mirror), i.e. dart:ffi / JNA are trusted to implement the C layout rules for what is declared",
        "each module is first fitted to the back end's feature profile (methods/types the tool rejects with a lowering error are dropped; listed in coverage.modules)",
        "Kotlin/JNA: Boolean parameters are treated as C bool (JNA passes a C int holding 0/1); DiplomatByte/DiplomatChar carried in Byte/Int are compared by bits; slice element types are not declared by Kotlin (untyped Pointer) and are taken from the Rust signature",
        "what Dart/Kotlin do with the declarations (their own marshalling code) is outside",
    ]
    return out


def run(prop):
    """Engine entry point used by props.run_property."""
    if prop == "C07":
        return run_dialects(prop)
    t0 = time.time()
    out = {"results": [], "crate_of": {}, "inconclusive": [], "violations": [], "known": [], "coverage": {}}
    steps = 4 if tier() == "thorough" else 3
    mods = modules_for(tier(), seed())
    replay_dir = os.path.join(VERIF, "replays", prop)
    programs = []
    n_static = 0
    for mod in mods:
        try:
            prep = prepare_module(mod, steps)
        except RuntimeError as e:
            out["inconclusive"].append(str(e))
            continue
        gen = prep["gen"]
        wanted = sorted(h for h, tags in gen["harnesses"].items() if prop in tags)
        for subject, message, tags in gen["static"]:
            if prop not in tags:
                continue
            n_static += 1
            os.makedirs(replay_dir, exist_ok=True)
            path = os.path.join(replay_dir, "static_%s_%s.txt" % (mod.name, re.sub(r"\W+", "_", subject)))
            with open(path, "w") as fh:
                fh.write(static_replay_text(mod, prep, subject, message))
            k = match_known(prop, "static:" + subject, [{"description": message, "function": subject}])
            if k:
                out["known"].append(("static:" + subject, k))
            else:
                out["violations"].append(("static:%s:%s" % (mod.name, subject), path, message))
        programs.append({"module": mod.name, "types": len(mod.order), "methods": len(mod.methods),
                         "c_functions": len(prep["cm"].functions), "harnesses": len(wanted),
                         "sha": hashlib.sha256(open(os.path.join(prep["dir"], "src", "lib.rs"), "rb").read()).hexdigest()[:12]})
        if not wanted:
            continue
        ht = 1800 if tier() == "thorough" else 600
        res, tools, log_, ok, wall = kani_run(prep["dir"], "bridge", filters=["ffi::" + w for w in wanted], exact=True, harness_timeout=ht,
                                              target_dir=os.path.join(CACHE, "target-bridge"))
        if not ok:
            errs = compile_error_summary(log_)
            out["inconclusive"].append("module %s did not build under Kani: %s" % (mod.name, errs or log_[-1500:]))
            continue
        out["coverage"]["tools"] = tools
        for name in wanted:
            r = res.get("ffi::" + name) or res.get(name)
            if r is None:
                out["inconclusive"].append("%s::%s: no result" % (mod.name, name))
                continue
            r.name = "%s::%s" % (mod.name, r.name)
            r.kani_name = "ffi::" + name
            crate = prep["dir"]

            def replayer(rr, rdir, crate=crate):
                rep = kani_replay(crate, rr.kani_name, keep_dir=rdir)
                src = os.path.join(rdir, "%s.playback.txt" % rr.kani_name.replace("::", "__"))
                dst = os.path.join(rdir, "%s.playback.txt" % rr.name.replace("::", "__"))
                if os.path.exists(src):
                    os.replace(src, dst)
                rep["path"] = dst
                return rep
            r.replayer = replayer
            out["results"].append(r)
    out["coverage"]["programs"] = len(programs)
    out["coverage"]["modules"] = programs
    out["coverage"]["disagreements_checked"] = len(out["results"]) + n_static
    out["coverage"]["static_findings"] = n_static
    out["coverage"]["extra_assumptions"] = [
        "E2/E3: the program quantifier is the enumerated module family (M0 fixed covering set + seeded random modules, see coverage.modules); "
        "each module is compiled with the real #[diplomat::bridge] macro from /repo and its C headers come from /repo's diplomat-tool built from the working tree",
        "C declarations are read by CBMC's C front end (goto-cc, LP64); mirror structs are #[repr(C)] re-declarations whose size and field offsets are asserted equal to the front end's",
        "roles and preconditions (nullable pointers, slice validity, enum values restricted to declared constants, UTF-8 strings restricted to ASCII) come from the Rust signature = the documented API contract",
        "calling convention (register classes, struct passing) is trusted to be derived identically by rustc and the C compiler from identical layouts; x86-64 SysV variadic == non-variadic for callback argument classes",
        "slices up to %d elements, string-slice lists up to 2x2; 128-bit integers, traits, callbacks taking non-primitives and multi-module references are outside the family" % hgen_c.SLICE_N,
    ]
    return out
