"""E2/E3(C): generated bridge crates compiled with the real proc macro, checked against the C
headers that the real diplomat-tool generates from the same file (DESIGN.md 2.1, 3)."""
import json
import os
import time

from vlib import *
import bridgegen
import cfront
import hgen_c

TOOL_TARGET = os.path.join(CACHE, "target-host")
GEN_ROOT = os.path.join(CACHE, "gen")

CARGO_TOML = """[package]
name = "bridge_%s"
version = "0.0.0"
edition = "2021"
[lib]
path = "src/lib.rs"
[dependencies]
diplomat = { path = "%s/macro" }
diplomat-runtime = { path = "%s/runtime" }
[workspace]
[lints.rust]
unexpected_cfgs = { level = "allow" }
"""

_tool_built = {}


def build_tool():
    """diplomat-tool built from /repo's working tree (incremental, own target dir)."""
    if "bin" in _tool_built:
        return _tool_built["bin"], ""
    env = dict(ENV)
    env["CARGO_TARGET_DIR"] = TOOL_TARGET
    rc, out = sh(["cargo", "build", "-p", "diplomat-tool", "--offline"], cwd=REPO, env=env, timeout=3600)
    b = os.path.join(TOOL_TARGET, "debug", "diplomat-tool")
    if rc != 0 or not os.path.exists(b):
        return None, out[-3000:]
    _tool_built["bin"] = b
    return b, ""


def run_tool(backend, entry, outdir, extra=None):
    b, err = build_tool()
    if b is None:
        return False, "diplomat-tool does not build: " + err
    shutil.rmtree(outdir, ignore_errors=True)
    env = dict(ENV)
    env["RUST_BACKTRACE"] = "0"
    rc, out = sh([b, backend, outdir, "--entry", entry] + (extra or []), cwd=os.path.dirname(entry), env=env, timeout=600)
    ok = rc == 0 and os.path.isdir(outdir) and "Lowering error" not in out and "panicked" not in out
    return ok, out[-3000:]


class RawModule:
    """a hand-written family member: bridge text with its own harnesses; only the mirror is generated"""

    def __init__(self, name, path, harness_tags, needs_headers=True):
        self.name, self.path, self.harness_tags, self.needs_headers = name, path, harness_tags, needs_headers
        self.order, self.methods, self.enums, self.structs, self.opaques = [], [], {}, {}, {}

    def emit_lib(self, harness_text="", mirror_text="", mirror_mod="m"):
        with open(self.path) as fh:
            return fh.read().replace("/*MIRROR*/", mirror_text)


RAW_MODULES = [RawModule("m0_holder", os.path.join(VERIF, "harness", "bridge_support", "m0_holder.rs"),
                         {"c03_stored_fnmut_callback": ["C03", "C01"], "c03_stored_fn_callback": ["C03", "C01"]}),
               RawModule("m0_rawwrite", os.path.join(VERIF, "harness", "bridge_support", "m0_rawwrite.rs"),
                         {"c12_flush_with_value_return": ["C12"], "c12_flush_with_result_value_return": ["C12"],
                          "c12_flush_plain": ["C12"], "c12_flush_result_unit": ["C12"]}, needs_headers=False),
               RawModule("m0_unitopaque", os.path.join(VERIF, "harness", "bridge_support", "m0_unitopaque.rs"),
                         {"c03_unit_struct_opaque_destroy": ["C03"], "c03_empty_struct_opaque_destroy": ["C03"],
                          "c03_tuple_struct_opaque_destroy": ["C03"]}, needs_headers=False)]


def modules_for(tier_, seed_):
    mods = [f() for f in bridgegen.M0] + list(RAW_MODULES)
    if tier_ == "thorough":
        for i in range(24):
            mods.append(bridgegen.random_module(seed_, i))
    else:
        for i in range(2):
            mods.append(bridgegen.random_module(seed_, i))
    only = os.environ.get("VERIF_ONLY_MODULES")      # development aid; never set by the registered commands
    if only:
        mods = [m for m in mods if m.name in only.split(",")]
    return mods


def rejected_by_name(out):
    """(methods, types) the tool refuses by name: lowering errors, and a back end's "Found usage of disabled type"
    diagnostics (the item uses a type its author disabled for that back end)."""
    dm = set(re.findall(r"Lowering error in (\w+)::(\w+):", out))
    dt = set(re.findall(r"Lowering error in (\w+):(?!:)", out))
    dm |= set(re.findall(r"(?m)^\s+(\w+)::(\w+): Found usage of disabled type", out))
    dt |= set(re.findall(r"(?m)^\s+(\w+): Found usage of disabled type", out))
    return dm, dt


def crashing_methods(cur, backend, extra, srcdir):
    """The methods of `cur` on which the back end panics when each is the only method of the module.  A back-end crash on
    an accepted module is C15's subject; for the claimed properties such methods are outside "what the tool accepts"
    and are dropped (and listed in evidence), exactly like items rejected by name."""
    bad = set()
    probe = os.path.join(srcdir, "crash_probe.rs")
    for m in list(cur.methods):
        single = bridgegen.filtered(cur, method_pred=lambda x, m=m: x is m)
        with open(probe, "w") as fh:
            fh.write(single.emit_lib())
        ok, out = run_tool(backend, probe, os.path.join(srcdir, "crash_probe_out"), extra)
        if not ok and "panicked at" in out and not any(rejected_by_name(out)):
            bad.add((m.owner, m.name))
    shutil.rmtree(os.path.join(srcdir, "crash_probe_out"), ignore_errors=True)
    if os.path.exists(probe):
        os.remove(probe)
    return bad


class StaticFinding:
    """A declaration-level disagreement (no values involved): reported like a failed harness."""

    def __init__(self, module, subject, message, tags, replay_text):
        self.module, self.subject, self.message, self.tags, self.replay_text = module, subject, message, tags, replay_text


def prepare_module(mod, steps):
    """Generate crate + headers + harnesses. Returns dict or raises RuntimeError(inconclusive reason)."""
    d = os.path.join(GEN_ROOT, mod.name)
    shutil.rmtree(d, ignore_errors=True)
    os.makedirs(os.path.join(d, "src"))
    with open(os.path.join(d, "Cargo.toml"), "w") as fh:
        fh.write(CARGO_TOML % (mod.name, REPO, REPO))
    shutil.copyfile(os.path.join(REPO, "Cargo.lock"), os.path.join(d, "Cargo.lock"))
    shutil.copyfile(os.path.join(VERIF, "harness", "bridge_support", "vsupport.rs"), os.path.join(d, "src", "vsupport.rs"))
    lib = os.path.join(d, "src", "lib.rs")
    with open(lib, "w") as fh:
        fh.write(mod.emit_lib())
    if isinstance(mod, RawModule) and not mod.needs_headers:
        # harnesses of this member call the macro-exported functions directly; no declaration model is involved
        gen = {"text": "", "mirror": "#[cfg(kani)]\npub mod m {}", "harnesses": dict(mod.harness_tags), "static": []}
        with open(lib, "w") as fh:
            fh.write(mod.emit_lib(mirror_text=gen["mirror"]))
        return {"dir": d, "cm": cfront.CModel(), "gen": gen, "problems": []}
    ok, out = run_tool("c", lib, os.path.join(d, "c"))
    fitted_out = []
    attempts = 0
    while not ok and not isinstance(mod, RawModule) and attempts < 4:
        # The properties quantify over modules the tool *accepts*: what lowering rejects by name is dropped (and listed in
        # evidence), so that a tightened acceptance rule does not turn into an alarm here (acceptance itself is C05's subject).
        dm, dt = rejected_by_name(out)
        if not dm and not dt:
            dm = crashing_methods(mod, "c", None, os.path.join(d, "src")) if "panicked at" in out else set()
            if not dm:
                break
        fitted_out += sorted("%s::%s" % x for x in dm) + sorted(dt)
        name = mod.name
        mod = bridgegen.filtered(mod, drop_methods=dm, drop_types=dt)
        mod.name = name
        with open(lib, "w") as fh:
            fh.write(mod.emit_lib())
        ok, out = run_tool("c", lib, os.path.join(d, "c"))
        attempts += 1
    if not ok:
        raise RuntimeError("diplomat-tool c rejected or crashed on generated module %s (generator bug or tool regression): %s" % (mod.name, out[-1500:]))
    cm, probs = cfront.load(os.path.join(d, "c"), d)
    if cm is None:
        raise RuntimeError("C front end failed on the headers of %s: %s" % (mod.name, probs))
    if isinstance(mod, RawModule):
        cx = hgen_c.Ctx(mod, cm)
        gen = {"text": "", "mirror": hgen_c.emit_mirror(cm, cx.names), "harnesses": dict(mod.harness_tags), "static": []}
    else:
        gen = hgen_c.generate_all(mod, cm, steps=steps)
    with open(lib, "w") as fh:
        fh.write(mod.emit_lib(harness_text=gen["text"], mirror_text=gen["mirror"]))
    with open(os.path.join(d, "harnesses.json"), "w") as fh:
        json.dump(gen["harnesses"], fh, indent=1)
    return {"dir": d, "cm": cm, "gen": gen, "problems": probs, "mod": mod, "fitted_out": fitted_out}


DIALECTS = {
    "dart": {"backend": "dart", "extra": [], "front": "dartfront",
             "dialect": {"name": "dart", "mod": "md", "flag": "isOk", "slice": ("_data", "_length"), "prefix": "c07d", "tags": ["C07"]},
             # known crash of the Dart back end (unreachable!() for Option<slice> parameters): kept out of the profile
             "pred": lambda m: not any(isinstance(t, bridgegen.Callback) or bridgegen.any_type(t, lambda x: isinstance(x, bridgegen.Opt) and isinstance(x.inner, (bridgegen.Slice, bridgegen.Str, bridgegen.StrSlice))) or isinstance(t, bridgegen.StrSlice)
                                       for _, t in m.params)},
    "kotlin": {"backend": "kotlin", "extra": ["--config", "kotlin.domain=dev.verif", "--config", "lib_name=bridge"], "front": "kotlinfront",
               "dialect": {"name": "kotlin", "mod": "mk", "flag": "isOk", "slice": ("data", "len"), "prefix": "c07k", "tags": ["C07"]},
               # Option<slice> parameters hit an unreachable!() in kotlin/mod.rs::gen_native_type_name (a C15 matter): kept out of the profile
               # field-less structs: the Kotlin back end refers to a `<Name>Native` class it never emits (a C09/C15 matter): kept out of the profile
               "drop_types": lambda mod: [s_.name for s_ in mod.structs.values() if not s_.fields],
               "pred": lambda m: not any(isinstance(t, (bridgegen.Callback, bridgegen.StrSlice)) or bridgegen.any_type(t, lambda x: isinstance(x, bridgegen.Opt) and isinstance(x.inner, (bridgegen.Slice, bridgegen.Str, bridgegen.StrSlice)))
                                         for _, t in m.params)},
}


def prepare_dialect(mod, which):
    """Fit `mod` to the back end's feature profile, generate its bindings, parse the native
    declarations into a CModel and generate harnesses against it."""
    spec = DIALECTS[which]
    cur = bridgegen.filtered(mod, method_pred=spec["pred"], drop_types=spec.get("drop_types", lambda m_: [])(mod), suffix="_" + which)
    d = os.path.join(GEN_ROOT, cur.name)
    fitted_out = []
    crashed_out = []
    for attempt in range(6):
        shutil.rmtree(d, ignore_errors=True)
        os.makedirs(os.path.join(d, "src"))
        with open(os.path.join(d, "Cargo.toml"), "w") as fh:
            fh.write(CARGO_TOML % (cur.name, REPO, REPO))
        shutil.copyfile(os.path.join(REPO, "Cargo.lock"), os.path.join(d, "Cargo.lock"))
        shutil.copyfile(os.path.join(VERIF, "harness", "bridge_support", "vsupport.rs"), os.path.join(d, "src", "vsupport.rs"))
        lib = os.path.join(d, "src", "lib.rs")
        with open(lib, "w") as fh:
            fh.write(cur.emit_lib())
        ok, out = run_tool(spec["backend"], lib, os.path.join(d, which), spec["extra"])
        if ok:
            break
        dm, dt = rejected_by_name(out)
        if not dm and not dt:
            dm = crashing_methods(cur, spec["backend"], spec["extra"], os.path.join(d, "src")) if "panicked at" in out else set()
            if not dm:
                raise RuntimeError("diplomat-tool %s crashed on generated module %s: %s" % (which, cur.name, out[-1200:]))
            crashed_out += sorted("%s::%s" % x for x in dm)
        else:
            fitted_out += sorted("%s::%s" % x for x in dm) + sorted(dt)
        name = cur.name
        cur = bridgegen.filtered(cur, drop_methods=dm, drop_types=dt)
        cur.name = name
    else:
        raise RuntimeError("could not fit module %s to the %s profile" % (mod.name, which))
    front = __import__(spec["front"])
    cm, probs = front.load(os.path.join(d, which))
    mism = [x for x in probs if x.startswith("MISMATCH")]
    probs = [x for x in probs if not x.startswith("MISMATCH")]
    if probs:
        raise RuntimeError("%s front end did not recognise everything in the bindings of %s: %s" % (which, cur.name, probs[:5]))
    cm.dialect = spec["dialect"]
    gen = hgen_c.generate_dialect(cur, cm)
    for x in mism:
        gen["static"].append((re.sub(r"\W+", "_", x)[:60], x[len("MISMATCH "):], ["C07"]))
    with open(lib, "w") as fh:
        fh.write(cur.emit_lib(harness_text=gen["text"], mirror_text=gen["mirror"], mirror_mod=spec["dialect"]["mod"]))
    return {"dir": d, "cm": cm, "gen": gen, "problems": probs, "mod": cur, "fitted_out": fitted_out, "crashed_out": crashed_out}


def harness_compile_findings(prep, log_):
    """{harness_name: message} for rustc errors E0425 (unknown function) / E0061 (arity) located inside a generated harness."""
    lib = os.path.join(prep["dir"], "src", "lib.rs")
    lines = open(lib).read().split("\n")
    # map line -> harness fn
    owner = {}
    cur = None
    for i, l in enumerate(lines, 1):
        m = re.match(r"\s*fn (c\d\d\w*)\(\) \{", l)
        if m:
            cur = m.group(1)
        owner[i] = cur
    out = {}
    for m in re.finditer(r"error\[(E0425|E0061)\]: ([^\n]*)\n\s*--> src/lib\.rs:(\d+):", log_):
        code, msg, line = m.group(1), m.group(2), int(m.group(3))
        h = owner.get(line)
        if not h:
            continue
        fn = re.search(r"`(\w+)`", msg)
        if code == "E0425" and fn and fn.group(1) in prep["cm"].functions:
            out[h] = "the header declares %s but the macro-expanded module has no such function (rustc: %s)" % (fn.group(1), msg)
        elif code == "E0061":
            out[h] = "the header's prototype and the macro-expanded function disagree on the number of parameters (rustc: %s)" % msg
    return out


def strip_harnesses(prep, names):
    lib = os.path.join(prep["dir"], "src", "lib.rs")
    txt = open(lib).read()
    for n in names:
        txt = re.sub(r"    #\[cfg\(kani\)\]\n    #\[kani::proof\]\n(    #\[kani::unwind\(\d+\)\]\n)?    fn %s\(\) \{.*?\n    \}\n" % re.escape(n), "", txt, flags=re.S)
    with open(lib, "w") as fh:
        fh.write(txt)


def static_replay_text(mod, prep, subject, message):
    cm = prep["cm"]
    lines = ["STATIC DISAGREEMENT between the Rust bridge module and the generated C header", "",
             "module: %s (%s/src/lib.rs)" % (mod.name, prep["dir"]), "subject: %s" % subject, "finding: %s" % message, ""]
    fn = subject.split(" ")[0]
    if fn in cm.functions:
        lines.append("C prototype (from %s): %s" % (cm.functions[fn]["file"], cfront.proto_text(cm, fn)))
    for m in mod.methods:
        if m.abi_name() == fn:
            lines.append("Rust method:\n" + mod.emit_method(m).split("{")[0])
    lines.append("")
    lines.append("Reproduce: cd %s && <diplomat-tool> c c --entry src/lib.rs ; compare the declaration above with src/lib.rs" % prep["dir"])
    return "\n".join(lines)


def validate_fronts():
    """Translator validation: the Dart/Kotlin front ends must recognise every declaration in the
    repository's own checked-in outputs."""
    import dartfront
    import kotlinfront
    probs = []
    n = 0
    for d in ("feature_tests/dart/lib/src", "example/dart/lib/src"):
        pth = os.path.join(REPO, d)
        if os.path.isdir(pth):
            m, pr = dartfront.load(pth)
            probs += ["dart front end on %s: %s" % (d, x) for x in pr]
            n += len(m.functions) + len(m.structs)
    for d in ("feature_tests/kotlin", "example/kotlin"):
        pth = os.path.join(REPO, d)
        if os.path.isdir(pth):
            m, pr = kotlinfront.load(pth)
            # callback / trait runner classes are outside the module family
            pr = [x for x in pr if not re.search(r"Runner_|tag-Callback|DiplomatCallback|DiplomatTrait", x)]
            probs += ["kotlin front end on %s: %s" % (d, x) for x in pr]
            n += len(m.functions) + len(m.structs)
    return n, probs


def run_dialects(prop):
    out = {"results": [], "crate_of": {}, "inconclusive": [], "violations": [], "known": [], "coverage": {}}
    mods = modules_for(tier(), seed())
    if tier() == "quick":
        mods = [m_ for m_ in mods if not m_.name.startswith("mr_")][:] + [m_ for m_ in mods if m_.name.startswith("mr_")][:1]
    replay_dir = os.path.join(VERIF, "replays", prop)
    programs = []
    n_static = 0
    ncorpus, probs = validate_fronts()
    # The checked-in outputs are a second opinion on the two text front ends, not an input of the check: what is verified
    # is always generated on this run (and an unrecognised construct there *is* inconclusive). Problems here are recorded.
    out["coverage"]["front_end_corpus_problems"] = probs[:20]
    for mod in mods:
        if mod.name == "m0_callbacks" or isinstance(mod, RawModule):
            continue
        for which in ("dart", "kotlin"):
            try:
                prep = prepare_dialect(mod, which)
            except RuntimeError as e:
                msg = str(e)
                if "MISMATCH" in msg:
                    out["violations"].append(("static:%s:%s" % (mod.name, which), "", msg))
                else:
                    out["inconclusive"].append(msg)
                continue
            gen = prep["gen"]
            wanted = sorted(gen["harnesses"])
            for subject, message, tags in gen["static"]:
                n_static += 1
                os.makedirs(replay_dir, exist_ok=True)
                path = os.path.join(replay_dir, "static_%s_%s_%s.txt" % (mod.name, which, re.sub(r"\W+", "_", subject)))
                with open(path, "w") as fh:
                    fh.write("STATIC DISAGREEMENT between the Rust bridge module and the generated %s bindings\n\nmodule: %s (%s)\nsubject: %s\nfinding: %s\n"
                             "\nReproduce: run diplomat-tool %s on %s/src/lib.rs and compare the native declaration of the subject with the Rust signature.\n"
                             % (which, prep["mod"].name, prep["dir"], subject, message, which, prep["dir"]))
                out["violations"].append(("static:%s:%s:%s" % (mod.name, which, subject), path, message))
            programs.append({"module": prep["mod"].name, "backend": which, "methods": len(prep["mod"].methods), "native_functions": len(prep["cm"].functions),
                             "native_structs": len(prep["cm"].structs), "harnesses": len(wanted), "dropped_by_profile": len(prep["fitted_out"]),
                             "dropped_because_the_back_end_panics": prep.get("crashed_out", []), "skipped": prep["gen"]["skipped"]})
            if not wanted:
                continue
            ht = 1800 if tier() == "thorough" else 600
            res, tools, log_, ok, wall = kani_run(prep["dir"], "bridge", filters=["ffi::" + w for w in wanted], exact=True, harness_timeout=ht,
                                                  target_dir=os.path.join(CACHE, "target-bridge"))
            if not ok:
                out["inconclusive"].append("module %s did not build under Kani: %s" % (prep["mod"].name, compile_error_summary(log_) or log_[-1500:]))
                continue
            out["coverage"]["tools"] = tools
            for name in wanted:
                r = res.get("ffi::" + name)
                if r is None:
                    out["inconclusive"].append("%s::%s: no result" % (prep["mod"].name, name))
                    continue
                r.name = "%s::%s" % (prep["mod"].name, r.name)
                r.kani_name = "ffi::" + name
                crate = prep["dir"]

                def replayer(rr, rdir, crate=crate):
                    rep = kani_replay(crate, rr.kani_name, keep_dir=rdir)
                    src = os.path.join(rdir, "%s.playback.txt" % rr.kani_name.replace("::", "__"))
                    dst = os.path.join(rdir, "%s.playback.txt" % rr.name.replace("::", "__"))
                    if os.path.exists(src):
                        os.replace(src, dst)
                    rep["path"] = dst
                    return rep
                r.replayer = replayer
                out["results"].append(r)
    out["coverage"]["programs"] = len(programs)
    out["coverage"]["modules"] = programs
    out["coverage"]["disagreements_checked"] = len(out["results"]) + n_static
    out["coverage"]["front_end_validation"] = "%d declarations of the checked-in Dart/Kotlin outputs parsed, %d unrecognised" % (ncorpus, len(probs))
    out["coverage"]["extra_assumptions"] = [
        "E3(Dart/Kotlin): native declarations are read by /verif/lib/dartfront.py and kotlinfront.py (trusted, validated on every run against the repository's checked-in outputs); "
        "struct layout is derived by rustc from the declared member order and types (#[repr(C)] mirror), i.e. dart:ffi / JNA are trusted to implement the C layout rules for what is declared",
        "each module is first fitted to the back end's feature profile (methods/types the tool rejects with a lowering error are dropped; listed in coverage.modules)",
        "Kotlin/JNA: Boolean parameters are treated as C bool (JNA passes a C int holding 0/1); DiplomatByte/DiplomatChar carried in Byte/Int are compared by bits; slice element types are not declared by Kotlin (untyped Pointer) and are taken from the Rust signature",
        "what Dart/Kotlin do with the declarations (their own marshalling code) is outside",
    ]
    return out


ADVERSARIAL_ENUMS = [
    [("First", 0), ("Third", 2), ("Second", 1), ("Fourth", 3)],            # contiguous as a set, shuffled
    [("A", 0), ("B", 5), ("C", None), ("D", None)],                        # gap then implicit
    [("A", -2), ("B", None), ("C", None), ("D", None)],                    # negative start, implicit run through 0
    [("A", 1), ("B", None), ("C", None)],                                  # contiguous but starting at 1
    [("A", 3), ("B", 2), ("C", 1), ("D", 0)],                              # reversed
    [("A", None), ("B", None), ("C", 1), ],                                # placeholder replaced below (duplicate would not compile)
    [("Lo", -2147483648), ("Next", None), ("Hi", 2147483646), ("Top", None)],
    [("Only", 0)],
    [("Only", -7)],
    [("A", 0), ("C", 2), ("B", 1)],                                        # 3-variant shuffle
    [("A", 10), ("B", None), ("C", None), ("D", 100), ("E", None), ("F", 7), ("G", None), ("H", None)],
    [("A", None), ("B", None), ("C", None), ("D", None), ("E", None), ("F", None), ("G", None), ("H", None)],
    [("Zero", 0), ("MinusOne", -1), ("MinusTwo", -2)],                     # |discriminant| == position
    [("Origin", None), ("Below", -1), ("Far", 40), ("Next", None)],
    [("A", 1), ("B", 0)],                                                  # two-variant swap
    [("A", 0), ("B", 1), ("C", 3), ("D", 2)],                              # contiguous prefix, then swapped tail
    [("A", -1), ("B", 0), ("C", 1)],                                       # contiguous run starting below zero
    [("Off", 0), ("_Reserved", 5), ("On", 6), ("__Legacy", -2)],           # variant names some target languages treat as private/reserved
]
ADVERSARIAL_ENUMS[5] = [("A", None), ("B", 2), ("C", 1)]                   # implicit 0, then descending explicit


def enum_module(tier_, seed_):
    mod = bridgegen.Module("enums")
    defs = []
    for f in bridgegen.M0:
        for ed in f().enums.values():
            defs.append(ed.variants)
    for v in ADVERSARIAL_ENUMS:
        defs.append(v)
    nrand = 24 if tier_ == "thorough" else 2
    for i in range(nrand):
        for ed in bridgegen.random_module(seed_, i).enums.values():
            defs.append(ed.variants)
    seen = set()
    k = 0
    for v in defs:
        key = tuple(v)
        if key in seen:
            continue
        seen.add(key)
        mod.add(bridgegen.EnumDef("En%d" % k, list(v)))
        k += 1
    mod.add(bridgegen.OpaqueDef("Eo"))
    for ed in list(mod.enums.values()):
        mod.method("Eo", "rt_%s" % ed.name.lower(), None, [("e", bridgegen.EnumT(ed.name))], bridgegen.EnumT(ed.name))
        # a method whose receiver is the enum itself: back ends convert `self` at a different site than parameters
        mod.method(ed.name, "me", "val", [], bridgegen.Prim("i32"))
    return mod


def enum_table_harness(backend, ed, fwd, rev):
    """Kani harness text + static problems for one enum and one back end's tables."""
    import enumfront
    names = [n for n, _ in ed.variants]
    problems = []
    fw = []
    for n in names:
        v = fwd.get(enumfront.norm(n))
        if not isinstance(v, int):
            problems.append("%s: variant %s::%s %s" % (backend, ed.name, n, ("is missing from the binding's table" if v is None else str(v))))
        fw.append(v if isinstance(v, int) else 0)
    extra = set(fwd) - {enumfront.norm(n) for n in names}
    if extra:
        problems.append("%s: the binding lists variants %s that the Rust enum %s does not have" % (backend, sorted(extra), ed.name))
    if problems:
        return None, problems
    n = len(names)
    idx = {enumfront.norm(nm): i for i, nm in enumerate(names)}
    chain = " else ".join("if d == %d { %s }" % (v, ("%d" % idx[nm]) if nm in idx else "usize::MAX") for v, nm in sorted(rev.items()) if nm is not None)
    chain = (chain + " else { usize::MAX }") if chain else "usize::MAX"
    body = [
        "let k: usize = kani::any(); kani::assume(k < %d);" % n,
        "let variants: [%s; %d] = [%s];" % (ed.name, n, ", ".join("%s::%s" % (ed.name, x) for x in names)),
        "let binding: [i64; %d] = [%s];" % (n, ", ".join(str(x) for x in fw)),
        "assert!(variants[k] as i32 as i64 == binding[k], \"C11: the %s binding's value for a variant differs from the discriminant rustc assigns\");" % backend,
        "let d: i64 = variants[k] as i32 as i64;",
        "let back: usize = %s;" % chain,
        "assert!(back == k, \"C11: the %s binding converts a value received from Rust to a different variant\");" % backend,
        "kani::cover!(k == %d);" % (n - 1),
    ]
    hname = "c11_%s_%s" % (backend, ed.name)
    text = "    #[cfg(kani)]\n    #[kani::proof]\n    #[kani::unwind(%d)]\n    fn %s() {\n        unsafe {\n            %s\n        }\n    }\n" % (n + 2, hname, "\n            ".join(body))
    return (hname, text), []


def run_enum_tables(prop, out):
    """C11 beyond the C header: Dart, Kotlin, C++, nanobind and JS tables against rustc's discriminants."""
    import enumfront
    mod = enum_module(tier(), seed())
    d = os.path.join(GEN_ROOT, mod.name)
    shutil.rmtree(d, ignore_errors=True)
    os.makedirs(os.path.join(d, "src"))
    with open(os.path.join(d, "Cargo.toml"), "w") as fh:
        fh.write(CARGO_TOML % (mod.name, REPO, REPO))
    shutil.copyfile(os.path.join(REPO, "Cargo.lock"), os.path.join(d, "Cargo.lock"))
    shutil.copyfile(os.path.join(VERIF, "harness", "bridge_support", "vsupport.rs"), os.path.join(d, "src", "vsupport.rs"))
    lib = os.path.join(d, "src", "lib.rs")
    with open(lib, "w") as fh:
        fh.write(mod.emit_lib())
    enums = list(mod.enums)
    rust_values = {e: [v for _, v in mod.enums[e].values()] for e in enums}
    replay_dir = os.path.join(VERIF, "replays", prop)
    texts, wanted = [], []
    backends = {}
    cfg = ["--config", "kotlin.domain=dev.verif", "--config", "lib_name=bridge"]
    for b in ("dart", "kotlin", "cpp", "nanobind", "js"):
        ok, log_ = run_tool(b, lib, os.path.join(d, b), cfg)
        if not ok:
            out["inconclusive"].append("diplomat-tool %s failed on the enum module: %s" % (b, log_[-600:]))
            continue
        backends[b] = os.path.join(d, b)
    tabs = {}
    if "dart" in backends:
        tabs["dart"] = enumfront.dart_tables(backends["dart"], enums)
    if "kotlin" in backends:
        tabs["kotlin"] = enumfront.kotlin_tables(backends["kotlin"], enums)
    if "cpp" in backends:
        tabs["cpp"] = enumfront.cpp_tables(backends["cpp"], enums)
        if "nanobind" in backends:
            tabs["nanobind"] = enumfront.nanobind_tables(backends["nanobind"], enums, tabs["cpp"])
    if "js" in backends:
        tabs["js"] = enumfront.js_tables(backends["js"], enums, rust_values)
    n_static = 0
    for b, t in tabs.items():
        for pr in t.problems:
            out["inconclusive"].append("enum front end: " + pr)
        for e in enums:
            if e not in t.fwd:
                continue
            h, probs = enum_table_harness(b, mod.enums[e], t.fwd[e], t.rev[e])
            for pr in probs:
                n_static += 1
                os.makedirs(replay_dir, exist_ok=True)
                path = os.path.join(replay_dir, "static_enum_%s_%s.txt" % (b, e))
                with open(path, "w") as fh:
                    fh.write("STATIC DISAGREEMENT (enum table)\n\nenum %s { %s }\nback end: %s\nfinding: %s\nforward table: %r\nreverse table: %r\n\nReproduce: diplomat-tool %s on %s\n"
                             % (e, ", ".join("%s%s" % (n, "" if v is None else " = %d" % v) for n, v in mod.enums[e].variants), b, pr, t.fwd[e], t.rev[e], b, lib))
                out["violations"].append(("static:enums:%s:%s" % (b, e), path, pr))
            if h:
                texts.append(h[1])
                wanted.append(h[0])
    with open(lib, "w") as fh:
        fh.write(mod.emit_lib(harness_text="\n".join(texts), mirror_text="#[cfg(kani)]\npub mod m {}"))
    if wanted:
        res, tools, log_, ok, wall = kani_run(d, "bridge", filters=["ffi::" + w for w in wanted], exact=True, harness_timeout=300,
                                              target_dir=os.path.join(CACHE, "target-bridge"))
        if not ok:
            out["inconclusive"].append("enum module did not build under Kani: %s" % (compile_error_summary(log_) or log_[-1500:]))
        else:
            for name in wanted:
                r = res.get("ffi::" + name)
                if r is None:
                    out["inconclusive"].append("enums::%s: no result" % name)
                    continue
                r.name = "enums::" + r.name
                r.kani_name = "ffi::" + name

                def replayer(rr, rdir, crate=d):
                    rep = kani_replay(crate, rr.kani_name, keep_dir=rdir)
                    src = os.path.join(rdir, "%s.playback.txt" % rr.kani_name.replace("::", "__"))
                    dst = os.path.join(rdir, "%s.playback.txt" % rr.name.replace("::", "__"))
                    if os.path.exists(src):
                        os.replace(src, dst)
                    rep["path"] = dst
                    return rep
                r.replayer = replayer
                out["results"].append(r)
    out["coverage"]["enum_tables"] = {"enums": len(enums), "backends": sorted(tabs), "harnesses": len(wanted), "static_findings": n_static,
                                      "samples": [{"enum": e, "variants": mod.enums[e].variants} for e in enums[:6]]}
    return n_static


def run_js_structs(prop):
    """C08, emitted-JS half: access facts of the generated struct classes (node probe) against the wasm32
    repr(C) layout; the reference layout is tied to rustc by a Kani harness."""
    import jsfront
    out = {"results": [], "crate_of": {}, "inconclusive": [], "violations": [], "known": [], "coverage": {}}
    replay_dir = os.path.join(VERIF, "replays", prop)
    mods = [bridgegen.m0_js()] + [bridgegen.js_random_module(seed(), i) for i in range(8 if tier() == "thorough" else 2)]
    facts = 0
    n_static = 0
    programs = []
    for mod in mods:
        d = os.path.join(GEN_ROOT, mod.name)
        shutil.rmtree(d, ignore_errors=True)
        os.makedirs(os.path.join(d, "src"))
        with open(os.path.join(d, "Cargo.toml"), "w") as fh:
            fh.write(CARGO_TOML % (mod.name, REPO, REPO))
        shutil.copyfile(os.path.join(REPO, "Cargo.lock"), os.path.join(d, "Cargo.lock"))
        shutil.copyfile(os.path.join(VERIF, "harness", "bridge_support", "vsupport.rs"), os.path.join(d, "src", "vsupport.rs"))
        lib = os.path.join(d, "src", "lib.rs")
        with open(lib, "w") as fh:
            fh.write(mod.emit_lib())
        ref = jsfront.Ref(mod)
        for abi in ("legacy", "spec"):
            jsdir = os.path.join(d, "js_" + abi)
            ok, log_ = run_tool("js", lib, jsdir, ["--config", "js.abi=%s" % abi])
            if not ok:
                out["inconclusive"].append("diplomat-tool js (js.abi=%s) failed on %s: %s" % (abi, mod.name, log_[-600:]))
                continue
            data, err = jsfront.probe(jsdir, mod, "Js", os.path.join(VERIF, "lib"))
            if data is None:
                out["inconclusive"].append("JS probe failed for %s (js.abi=%s): %s" % (mod.name, abi, err))
                continue
            for sname, res in data["structs"].items():
                facts += len(res.get("write", {})) + len(res.get("read", {})) + (1 if res.get("args") is not None else 0) + (1 if res.get("recv") else 0)
            diffs = jsfront.compare(mod, ref, data, abi=abi)
            for sname, msg in diffs:
                n_static += 1
                os.makedirs(replay_dir, exist_ok=True)
                path = os.path.join(replay_dir, "js_%s_%s_%s_%d.txt" % (mod.name, abi, sname, n_static))
                with open(path, "w") as fh:
                    fh.write("DISAGREEMENT between the emitted JS and the wasm32 repr(C) layout (js.abi=%s)\n\nstruct: %s\nfinding: %s\n\n"
                             "Rust definition: %s\nreference layout (size, align, fields(name, offset, size, align)): %r\n\n"
                             "Reproduce: cd %s && node verif_jsprobe.mjs verif_spec.json   (prints the access facts of the emitted classes)\n"
                             % (abi, sname, msg, ", ".join("%s: %s" % (n, t.rust()) for n, t in mod.structs[sname].fields) if sname in mod.structs else "-",
                                [(f[0], f[2], f[3], f[4]) for f in ref.struct(sname)[2]] if sname in mod.structs else None, jsdir))
                k = match_known(prop, "static:js:%s:%s" % (abi, sname), [{"description": msg, "function": sname}])
                if k:
                    out["known"].append(("static:js:%s:%s" % (abi, sname), k))
                else:
                    out["violations"].append(("static:js:%s:%s:%s" % (mod.name, abi, sname), path, msg))
            programs.append({"module": mod.name, "js.abi": abi, "structs": len(mod.structs), "disagreements": len(diffs)})
        mirror, text, hname = jsfront.layout_harness(mod, ref)
        with open(lib, "w") as fh:
            fh.write(mod.emit_lib(harness_text=text, mirror_text=mirror + "\n#[cfg(kani)]\npub mod m {}"))
        res, tools, log_, ok, wall = kani_run(d, "bridge", filters=["ffi::" + hname], exact=True, harness_timeout=300,
                                              target_dir=os.path.join(CACHE, "target-bridge"))
        if not ok:
            out["inconclusive"].append("module %s did not build under Kani: %s" % (mod.name, compile_error_summary(log_) or log_[-1500:]))
        else:
            r = res.get("ffi::" + hname)
            if r is None:
                out["inconclusive"].append("%s: no result" % hname)
            else:
                r.name = "%s::%s" % (mod.name, r.name)
                r.kani_name = "ffi::" + hname

                def replayer(rr, rdir, crate=d):
                    rep = kani_replay(crate, rr.kani_name, keep_dir=rdir)
                    rep["path"] = os.path.join(rdir, "%s.playback.txt" % rr.kani_name.replace("::", "__"))
                    return rep
                r.replayer = replayer
                out["results"].append(r)
    out["coverage"]["js_emitted_code"] = {"modules": programs, "access_facts_compared": facts, "disagreements": n_static,
                                          "explanation": "facts about the emitted JS (bytes written / read per leaf, interpretation of all-ones and pattern bytes, flattened argument lists, "
                                                         "receive-buffer size and alignment) obtained by executing the generated classes under node with a recording wasm stub; "
                                                         "compared with the wasm32 repr(C) reference layout, which a Kani harness proves equal to rustc's layout of 32-bit-pointer mirrors. "
                                                         "These comparisons are structural (not solver-decided); they are reported as VIOLATION with the probe command as replay."}
    out["coverage"]["extra_assumptions"] = [
        "emitted-JS half: node 20 executes the generated ES modules; the wasm module is a recording stub (exports record their arguments, memory is a plain ArrayBuffer)",
        "argument lists are checked for js.abi=legacy against docs/wasm_abi_quirks.md (direct for <= 2 scalars, padded direct otherwise, padding typed by the preceding field's alignment); "
        "structs with DiplomatOption fields are excluded from the argument-list comparison; js.abi=spec is checked for reads, writes and receive buffers only",
        "no wasm32 target is installed, so the real wasm calling convention is not consulted; the reference is the documented rule plus rustc's layout",
    ]
    return out


def cpp_destructor_findings(mod, d, out, replay_dir):
    """C03, C++ half (declaration level only): the generated owning wrapper of every opaque releases it through
    `operator delete`, which must call exactly that type's destroy symbol once. Only definite disagreements are
    findings; an unrecognised shape is recorded in evidence, not reported."""
    lib = os.path.join(d, "src", "lib.rs")
    cur = bridgegen.filtered(mod, suffix="")
    ok, log_ = run_tool("cpp", lib, os.path.join(d, "cpp"))
    notes = []
    if not ok:
        notes.append("diplomat-tool cpp did not accept %s: %s" % (mod.name, log_[-200:]))
        return notes
    n = 0
    for o in mod.opaques:
        hp = os.path.join(d, "cpp", "%s.hpp" % o)
        if not os.path.exists(hp):
            notes.append("no %s.hpp" % o)
            continue
        txt = open(hp).read()
        m = re.search(r"inline\s+void\s+%s::operator\s+delete\s*\(\s*void\s*\*\s*(\w+)\s*\)\s*\{(.*?)\n\}" % re.escape(o), txt, flags=re.S)
        if not m:
            notes.append("%s: no operator delete found (shape not recognised)" % o)
            continue
        body = m.group(2)
        calls = re.findall(r"(\w+_destroy)\s*\(", body)
        want = "%s_destroy" % o
        problem = None
        if len(calls) == 0:
            problem = "operator delete of the C++ wrapper %s calls no destroy function: the Rust object is never dropped" % o
        elif calls != [want]:
            problem = "operator delete of the C++ wrapper %s calls %s, expected exactly one call of %s" % (o, calls, want)
        n += 1
        if problem:
            os.makedirs(replay_dir, exist_ok=True)
            path = os.path.join(replay_dir, "static_cpp_%s_%s.txt" % (mod.name, o))
            with open(path, "w") as fh:
                fh.write("DISAGREEMENT in the generated C++ wrapper\n\nfinding: %s\n\n%s\n\nReproduce: diplomat-tool cpp on %s\n" % (problem, m.group(0), lib))
            out["violations"].append(("static:cpp:%s:%s" % (mod.name, o), path, problem))
    notes.append("%d operator delete definitions checked in %s" % (n, mod.name))
    return notes


def cpp_ownership_findings(mod, d, out, replay_dir):
    """C03, C++ half (declaration level only): which generated C++ method bodies take ownership of a returned opaque.
    A `Box<T>` (also inside Option / Result::Ok / an out-struct field) must be wrapped in exactly one
    `std::unique_ptr<T>(T::FromFFI(..))`, a borrowed `&T` / `Option<&T>` must not be wrapped at all, and every body calls
    its own C symbol exactly once.  Must run after cpp_destructor_findings (which generates <d>/cpp).  Only definite
    disagreements with recognised shapes are findings."""
    B = bridgegen
    notes = []
    cppdir = os.path.join(d, "cpp")
    if not os.path.isdir(cppdir):
        return notes
    texts = {f: open(os.path.join(cppdir, f)).read() for f in os.listdir(cppdir) if f.endswith(".hpp") and not f.endswith(".d.hpp")}
    alltxt = "\n".join(texts.values())
    bodies = re.findall(r"\ninline\s+([^\n;{}]*?)\s+(\w+)::(\w+)\s*\(([^{};]*?)\)\s*(?:const\s*)?\{(.*?)\n\}", alltxt, flags=re.S)
    n = 0

    def report(subject, problem, text):
        os.makedirs(replay_dir, exist_ok=True)
        path = os.path.join(replay_dir, "static_cpp_%s_%s.txt" % (mod.name, re.sub(r"\W+", "_", subject)))
        with open(path, "w") as fh:
            fh.write("DISAGREEMENT in the generated C++ wrapper\n\nfinding: %s\n\n%s\n\nReproduce: diplomat-tool cpp on %s\n" % (problem, text, os.path.join(d, "src", "lib.rs")))
        out["violations"].append(("static:cpp:%s:%s" % (mod.name, subject), path, problem))

    def owned_in(t):
        """(number of owning wrappers expected in the method body itself, opaque type name)"""
        if isinstance(t, B.OpaqueBox):
            return 1, t.name
        if isinstance(t, B.Res) and isinstance(t.ok, B.OpaqueBox):
            return 1, t.ok.name
        return 0, None

    for m in mod.methods:
        sym = m.abi_name()
        mine = [b for b in bodies if re.search(r"diplomat::capi::%s\s*\(" % re.escape(sym), b[4])]
        if len(mine) != 1:
            if len(mine) > 1:
                report(sym, "%d generated C++ functions call the C symbol %s; expected exactly one" % (len(mine), sym), "")
            else:
                notes.append("%s: no C++ body calling it was recognised" % sym)
            continue
        rett, owner, name, params, body = mine[0]
        text = "inline %s %s::%s(%s) {%s\n}" % (rett, owner, name, params, body)
        calls = len(re.findall(r"diplomat::capi::%s\s*\(" % re.escape(sym), body))
        n += 1
        if calls != 1:
            report(sym, "the C++ wrapper of %s calls the C function %d times; the Rust method must run exactly once" % (sym, calls), text)
            continue
        # callbacks: Rust owns what it is handed (it may keep the callback beyond the call and releases it through the
        # destructor), so the wrapper must pass a heap copy of the std::function together with its deleter
        ncb = len([1 for _, t in m.params if isinstance(t, B.Callback)])
        if ncb:
            inits = re.findall(r"\{\s*([^{},]+?)\s*,\s*diplomat::fn_traits\(\s*(\w+)\s*\)\.c_run_callback\s*,\s*([^{},]+?)\s*\}", body)
            if len(inits) != ncb:
                notes.append("%s: %d callback parameter(s) but %d recognised callback initialisers" % (sym, ncb, len(inits)))
            for data, pn, dtor in inits:
                if re.sub(r"\s+", "", data) != "newdecltype(%s)(std::move(%s))" % (pn, pn):
                    report(sym + "." + pn, "callback argument %s of %s is handed to Rust as `%s`, not as an owned heap copy `new decltype(%s)(std::move(%s))`: "
                                           "Rust may keep the callback beyond the call, and a borrowed std::function dies when the wrapper returns" % (pn, sym, data.strip(), pn, pn), text)
                elif re.sub(r"\s+", "", dtor) != "diplomat::fn_traits(%s).c_delete" % pn:
                    report(sym + "." + pn, "callback argument %s of %s is handed to Rust with destructor `%s` instead of diplomat::fn_traits(%s).c_delete: the heap copy is never released (or released wrongly)"
                           % (pn, sym, dtor.strip(), pn), text)
        if m.ret is None:
            continue
        want, tname = owned_in(m.ret)
        wraps = re.findall(r"std::unique_ptr<\s*(?:\w+::)*(\w+)\s*>\s*\(\s*(?:\w+::)*\w+::FromFFI\s*\(", body)
        if want:
            if len(wraps) != 1 or wraps[0] != tname:
                report(sym, "%s returns an owned %s (Box): the C++ wrapper must take ownership through exactly one std::unique_ptr<%s>(%s::FromFFI(..)); found %s"
                       % (sym, tname, tname, tname, wraps or "none"), text)
            elif "std::unique_ptr<" not in rett:
                report(sym, "%s returns an owned %s (Box) but the C++ return type `%s` is not owning" % (sym, tname, rett), text)
        elif isinstance(m.ret, B.OpaqueRef):
            if wraps or "unique_ptr" in body or "unique_ptr" in rett:
                report(sym, "%s returns a borrowed %s but the C++ wrapper takes ownership (std::unique_ptr): the object would be destroyed twice" % (sym, m.ret.name), text)
    # out-structs: owned opaque fields are adopted in <Struct>::FromFFI
    for sd in mod.structs.values():
        boxed = [(fn, t) for fn, t in sd.fields if isinstance(t, B.OpaqueBox)]
        if not boxed:
            continue
        fm = re.search(r"inline\s+%s\s+%s::FromFFI\s*\([^)]*\)\s*\{(.*?)\n\}" % (re.escape(sd.name), re.escape(sd.name)), alltxt, flags=re.S)
        if not fm:
            notes.append("%s::FromFFI not recognised" % sd.name)
            continue
        for fn, t in boxed:
            lm = re.search(r"/\*\s*\.%s\s*=\s*\*/\s*([^\n]*)" % re.escape(fn), fm.group(1))
            if not lm:
                notes.append("%s::FromFFI: field %s not recognised" % (sd.name, fn))
                continue
            n += 1
            if not re.match(r"std::unique_ptr<\s*(?:\w+::)*%s\s*>\s*\(\s*(?:\w+::)*%s::FromFFI\s*\(\s*c_struct\.%s\s*\)\s*\)" % (re.escape(t.name), re.escape(t.name), re.escape(fn)), lm.group(1).strip()):
                report("%s.%s" % (sd.name, fn), "out-struct field %s.%s is an owned %s (Box) but %s::FromFFI does not adopt it with std::unique_ptr<%s>(%s::FromFFI(c_struct.%s)): `%s`"
                       % (sd.name, fn, t.name, sd.name, t.name, t.name, fn, lm.group(1).strip()), fm.group(0))
    notes.append("%d C++ method bodies / out-struct fields checked for ownership in %s" % (n, mod.name))
    return notes


def run(prop):
    """Engine entry point used by props.run_property."""
    if prop == "C07":
        return run_dialects(prop)
    if prop == "C08":
        return run_js_structs(prop)
    t0 = time.time()
    out = {"results": [], "crate_of": {}, "inconclusive": [], "violations": [], "known": [], "coverage": {}}
    steps = 4 if tier() == "thorough" else 3
    mods = modules_for(tier(), seed())
    replay_dir = os.path.join(VERIF, "replays", prop)
    programs = []
    n_static = 0
    for mod in mods:
        try:
            prep = prepare_module(mod, steps)
        except RuntimeError as e:
            out["inconclusive"].append(str(e))
            continue
        gen = prep["gen"]
        mod = prep.get("mod", mod)
        wanted = sorted(h for h, tags in gen["harnesses"].items() if prop in tags)
        for subject, message, tags in gen["static"]:
            if prop not in tags:
                continue
            n_static += 1
            os.makedirs(replay_dir, exist_ok=True)
            path = os.path.join(replay_dir, "static_%s_%s.txt" % (mod.name, re.sub(r"\W+", "_", subject)))
            with open(path, "w") as fh:
                fh.write(static_replay_text(mod, prep, subject, message))
            k = match_known(prop, "static:" + subject, [{"description": message, "function": subject}])
            if k:
                out["known"].append(("static:" + subject, k))
            else:
                out["violations"].append(("static:%s:%s" % (mod.name, subject), path, message))
        if prop == "C03" and not isinstance(mod, RawModule) and mod.name in ("m0_core", "m0_callbacks"):
            out["coverage"].setdefault("cpp_wrapper_notes", []).extend(cpp_destructor_findings(mod, prep["dir"], out, replay_dir))
            out["coverage"].setdefault("cpp_wrapper_notes", []).extend(cpp_ownership_findings(mod, prep["dir"], out, replay_dir))
        programs.append({"module": mod.name, "types": len(mod.order), "methods": len(mod.methods),
                         "c_functions": len(prep["cm"].functions), "harnesses": len(wanted), "dropped_by_lowering": prep.get("fitted_out", []),
                         "sha": hashlib.sha256(open(os.path.join(prep["dir"], "src", "lib.rs"), "rb").read()).hexdigest()[:12]})
        if not wanted:
            continue
        ht = 1800 if tier() == "thorough" else 600
        leak = None   # CBMC's leak check is applied to the runtime harnesses only (E1); here the harness itself keeps objects alive across the call
        res, tools, log_, ok, wall = kani_run(prep["dir"], "bridge", filters=["ffi::" + w for w in wanted], exact=True, harness_timeout=ht,
                                              target_dir=os.path.join(CACHE, "target-bridge"), extra_args=leak)
        if not ok:
            # A harness calls each wrapper by the name and with the arity the *header* declares. If rustc rejects exactly
            # that (unknown function / wrong number of arguments), header and macro disagree: a static finding. The
            # offending harnesses are removed and the module is verified again; any other compile error is inconclusive.
            bad = harness_compile_findings(prep, log_)
            if bad:
                for hname, msg in bad.items():
                    if prop in gen["harnesses"].get(hname, []):
                        n_static += 1
                        os.makedirs(replay_dir, exist_ok=True)
                        path = os.path.join(replay_dir, "static_%s_%s.txt" % (mod.name, hname))
                        with open(path, "w") as fh:
                            fh.write(static_replay_text(mod, prep, hname[4:], msg))
                        out["violations"].append(("static:%s:%s" % (mod.name, hname), path, msg))
                strip_harnesses(prep, set(bad))
                wanted = [w for w in wanted if w not in bad]
                res, tools, log_, ok, wall = kani_run(prep["dir"], "bridge", filters=["ffi::" + w for w in wanted], exact=True, harness_timeout=ht,
                                                      target_dir=os.path.join(CACHE, "target-bridge"))
        if not ok:
            errs = compile_error_summary(log_)
            out["inconclusive"].append("module %s did not build under Kani: %s" % (mod.name, errs or log_[-1500:]))
            continue
        out["coverage"]["tools"] = tools
        for name in wanted:
            r = res.get("ffi::" + name) or res.get(name)
            if r is None:
                out["inconclusive"].append("%s::%s: no result" % (mod.name, name))
                continue
            r.name = "%s::%s" % (mod.name, r.name)
            r.kani_name = "ffi::" + name
            crate = prep["dir"]

            def replayer(rr, rdir, crate=crate):
                rep = kani_replay(crate, rr.kani_name, keep_dir=rdir)
                src = os.path.join(rdir, "%s.playback.txt" % rr.kani_name.replace("::", "__"))
                dst = os.path.join(rdir, "%s.playback.txt" % rr.name.replace("::", "__"))
                if os.path.exists(src):
                    os.replace(src, dst)
                rep["path"] = dst
                return rep
            r.replayer = replayer
            out["results"].append(r)
    if prop == "C11":
        n_static += run_enum_tables(prop, out)
        programs.append({"module": "enums", "note": "enum tables of Dart, Kotlin, C++, nanobind, JS"})
    out["coverage"]["programs"] = len(programs)
    out["coverage"]["modules"] = programs
    out["coverage"]["disagreements_checked"] = len(out["results"]) + n_static
    out["coverage"]["static_findings"] = n_static
    out["coverage"]["extra_assumptions"] = [
        "E2/E3: the program quantifier is the enumerated module family (M0 fixed covering set + seeded random modules, see coverage.modules); "
        "each module is compiled with the real #[diplomat::bridge] macro from /repo and its C headers come from /repo's diplomat-tool built from the working tree",
        "C declarations are read by CBMC's C front end (goto-cc, LP64); mirror structs are #[repr(C)] re-declarations whose size and field offsets are asserted equal to the front end's",
        "roles and preconditions (nullable pointers, slice validity, enum values restricted to declared constants, UTF-8 strings restricted to ASCII) come from the Rust signature = the documented API contract",
        "calling convention (register classes, struct passing) is trusted to be derived identically by rustc and the C compiler from identical layouts; x86-64 SysV variadic == non-variadic for callback argument classes",
        "slices up to %d elements, string-slice lists up to 2x2; 128-bit integers, traits, callbacks taking non-primitives and multi-module references are outside the family" % hgen_c.SLICE_N,
    ]
    if prop == "C11":
        out["coverage"]["extra_assumptions"].insert(0, "C11 tables: Dart/Kotlin/C++/nanobind tables are read from the emitted text by /verif/lib/enumfront.py (regular template output; an unrecognised shape is inconclusive), "
        "the JS table by loading the emitted ES module under node with a stub wasm object; variant names are matched case- and underscore-insensitively")
    return out
