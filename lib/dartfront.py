"""E3 (Dart): the native declarations the Dart back end emits, turned into the same CModel the C front
end produces.  Two regular shapes are recognised and nothing else:

  final class _XFfi extends ffi.Struct|ffi.Union { [@ffi.T()] external <dart type> name; ... }
  @ffi.Native<R Function(A, ...)>(..., symbol: 'S')

This parser is part of the trusted base; it is validated on every run against the repository's own
checked-in Dart outputs (every struct/union member and every Native annotation must be recognised).
An unrecognised construct inside a struct or Native annotation is reported, never skipped.
"""
import os
import re

from cfront import CType, CModel

FFI_SCALARS = {
    "ffi.Int8": ("int", 8, True), "ffi.Uint8": ("int", 8, False),
    "ffi.Int16": ("int", 16, True), "ffi.Uint16": ("int", 16, False),
    "ffi.Int32": ("int", 32, True), "ffi.Uint32": ("int", 32, False),
    "ffi.Int64": ("int", 64, True), "ffi.Uint64": ("int", 64, False),
    "ffi.IntPtr": ("int", 64, True), "ffi.Size": ("int", 64, False),
    "ffi.Float": ("float", 32, None), "ffi.Double": ("float", 64, None),
    "ffi.Bool": ("bool", 8, None),
}


def conv(tname, model, problems, where):
    tname = tname.strip()
    if tname in FFI_SCALARS:
        k, w, s = FFI_SCALARS[tname]
        t = CType(k, width=w, signed=s, typedef=tname)
        t.dart_name = tname
        return t
    if tname == "ffi.Void":
        return CType("void", typedef=tname)
    m = re.fullmatch(r"ffi\.Pointer<(.*)>", tname)
    if m:
        inner = m.group(1).strip()
        if inner in ("ffi.Opaque", "ffi.Void"):
            # an opaque object / untyped pointer: Dart does not name the pointee
            return CType("ptr", to=CType("struct", tag=None), typedef=tname)
        return CType("ptr", to=conv(inner, model, problems, where), typedef=tname)
    if re.fullmatch(r"_\w+", tname):
        return CType("struct", tag="tag-" + tname, typedef=tname)   # kind fixed up once all classes are known
    problems.append("%s: unrecognised Dart FFI type %r" % (where, tname))
    return CType("void")


def split_args(s):
    out, depth, cur = [], 0, ""
    for ch in s:
        if ch == "<":
            depth += 1
        if ch == ">":
            depth -= 1
        if ch == "," and depth == 0:
            out.append(cur)
            cur = ""
        else:
            cur += ch
    if cur.strip():
        out.append(cur)
    return [a.strip() for a in out]


def parse_text(txt, fname, model, problems):
    # structs / unions
    for m in re.finditer(r"final\s+class\s+(_\w+)\s+extends\s+ffi\.(Struct|Union)\s*\{(.*?)\n\}", txt, flags=re.S):
        cname, kind, body = m.group(1), m.group(2).lower(), m.group(3)
        members = []
        pending_ann = None
        depth = 0
        for line in body.split("\n"):
            s = line.strip()
            if depth == 0:
                am = re.fullmatch(r"@\s*(ffi\.\w+)\s*\(\s*\)", s)
                em = re.fullmatch(r"external\s+(.+?)\s+(\w+)\s*;", s)
                if am:
                    pending_ann = am.group(1)
                elif em:
                    dart_t, name = em.group(1), em.group(2)
                    if pending_ann:
                        t = conv(pending_ann, model, problems, "%s.%s" % (cname, name))
                    else:
                        t = conv(dart_t, model, problems, "%s.%s" % (cname, name))
                    members.append((name, t, False))
                    pending_ann = None
                elif s.startswith("external"):
                    problems.append("%s: unrecognised member declaration %r in %s" % (fname, s, cname))
            depth += s.count("{") - s.count("}")
        model.structs["tag-" + cname] = {"members": members, "kind": kind, "incomplete": False, "file": fname}
    # natives
    for m in re.finditer(r"@ffi\.Native\s*<(.*?)>\s*\(([^)]*)\)\s*(?://[^\n]*\n\s*)*external\s+[^\n]*?\s(\w+)\s*\((.*?)\)\s*;", txt, flags=re.S):
        sig, opts, dart_fn, dart_params = m.group(1), m.group(2), m.group(3), m.group(4)
        sm = re.fullmatch(r"(.*?)\s+Function\s*\((.*)\)", sig.strip(), flags=re.S)
        symm = re.search(r"symbol\s*:\s*['\"](\w+)['\"]", opts)
        if not sm or not symm:
            problems.append("%s: unrecognised Native annotation %r" % (fname, sig[:80]))
            continue
        ret = conv(sm.group(1), model, problems, symm.group(1) + " return")
        args = split_args(sm.group(2))
        pnames = [p.strip().split(" ")[-1] for p in split_args(dart_params)] if dart_params.strip() else []
        if len(pnames) != len(args):
            pnames = ["a%d" % i for i in range(len(args))]
        params = [(pnames[i], conv(a, model, problems, "%s param %d" % (symm.group(1), i))) for i, a in enumerate(args)]
        model.functions[symm.group(1)] = {"ret": ret, "params": params, "file": fname, "line": txt[:m.start()].count("\n") + 1}
    # every @ffi.Native occurrence must have been recognised
    n_ann = len(re.findall(r"@ffi\.Native<", txt))
    n_ok = len([1 for f in model.functions.values() if f["file"] == fname])
    if n_ann != n_ok:
        problems.append("%s: %d @ffi.Native annotations but %d recognised" % (fname, n_ann, n_ok))


def load(dart_dir):
    model = CModel()
    problems = []
    for f in sorted(os.listdir(dart_dir)):
        if not f.endswith(".dart"):
            continue
        with open(os.path.join(dart_dir, f)) as fh:
            txt = fh.read()
        model.header_text[f] = txt
        parse_text(txt, f, model, problems)
    # fix struct/union kinds of references
    def fix(t):
        if t is None:
            return
        if t.kind in ("struct", "union") and t.tag and t.tag in model.structs:
            t.kind = model.structs[t.tag]["kind"]
        elif t.kind == "struct" and t.tag and t.tag not in model.structs:
            problems.append("reference to unknown Dart FFI class %s" % t.tag)
        if t.kind == "ptr":
            fix(t.to)
    for s in model.structs.values():
        for _, t, _ in s["members"]:
            fix(t)
    for fn in model.functions.values():
        fix(fn["ret"])
        for _, t in fn["params"]:
            fix(t)
    return model, problems


def parse_enum_tables(dart_dir):
    """{EnumName: {"variants": [dartName...], "to_ffi": {dartName: int}}} from `enum X { a, b; ... int get _ffi { ... } }`.
    Two shapes are emitted: contiguous (`_ffi => index`) and explicit (`switch`/map of values)."""
    out = {}
    for f in sorted(os.listdir(dart_dir)):
        if not f.endswith(".dart"):
            continue
        txt = open(os.path.join(dart_dir, f)).read()
        for m in re.finditer(r"\nenum (\w+) \{(.*?)\n\}", txt, flags=re.S):
            name, body = m.group(1), m.group(2)
            head = body.split(";")[0]
            variants = [re.sub(r"///[^\n]*", "", v).strip() for v in head.split(",")]
            variants = [v.split("\n")[-1].strip() for v in variants if v.strip()]
            out[name] = {"variants": variants, "body": body, "file": f}
    return out


if __name__ == "__main__":
    import sys
    m, probs = load(sys.argv[1])
    print("problems:", probs)
    print(len(m.structs), "structs", len(m.functions), "functions")
    for n, f in list(m.functions.items())[:5]:
        print(n, f["ret"], f["params"])
