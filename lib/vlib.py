"""Shared machinery for the solver-based checks in /verif (see DESIGN.md section 2).

Everything that decides a property goes through `kani_run`: Kani compiles the real source from
/repo's working tree into a goto program, CBMC unwinds it to the stated bounds and a SAT solver
(CaDiCaL) decides every assertion over all symbolic values.  This module only orchestrates,
classifies verdicts, replays counterexamples natively and writes evidence.
"""
import glob
import hashlib
import json
import os
import re
import shutil
import subprocess
import sys
import tempfile
import time

VERIF = os.path.dirname(os.path.dirname(os.path.abspath(__file__)))
REPO = os.environ.get("VERIF_REPO", "/repo")
CACHE = os.path.join(VERIF, "cache")
EVID = os.path.join(VERIF, "evidence")
KNOWN = os.path.join(VERIF, "known_findings.json")
SCRATCH_ROOT = "/var/tmp"

ENV = dict(os.environ)
ENV["CARGO_NET_OFFLINE"] = "true"
ENV.pop("RUSTFLAGS", None)
# keep Kani's rustc away from whatever toolchain override the caller has
ENV.pop("RUSTUP_TOOLCHAIN", None)

NCPU = os.cpu_count() or 4


def log(*a):
    print(*a, flush=True)


def tier():
    t = os.environ.get("VERIF_TIER", "quick")
    return "thorough" if t == "thorough" else "quick"


def seed():
    try:
        return int(os.environ.get("VERIF_SEED", "0"))
    except ValueError:
        return 0


def sh(cmd, cwd=None, timeout=None, env=None, check=False):
    p = subprocess.run(cmd, cwd=cwd, timeout=timeout, env=env or ENV, stdout=subprocess.PIPE,
                       stderr=subprocess.STDOUT, text=True, errors="replace")
    if check and p.returncode != 0:
        raise RuntimeError("command failed (%d): %s\n%s" % (p.returncode, cmd, p.stdout[-4000:]))
    return p.returncode, p.stdout


def repo_fingerprint():
    """Hash of the files of /repo's working tree that the checks compile (for evidence)."""
    h = hashlib.sha256()
    for sub in ("runtime/src", "macro/src", "core/src", "tool/src", "tool/templates"):
        for root, _, files in sorted(os.walk(os.path.join(REPO, sub))):
            for f in sorted(files):
                p = os.path.join(root, f)
                h.update(p.encode())
                with open(p, "rb") as fh:
                    h.update(fh.read())
    return h.hexdigest()[:16]


def mkscratch(prefix):
    os.makedirs(SCRATCH_ROOT, exist_ok=True)
    return tempfile.mkdtemp(prefix="diplomat-verif.%s." % prefix, dir=SCRATCH_ROOT)


# ------------------------------------------------------------------------------------------------
# Kani
# ------------------------------------------------------------------------------------------------

class HarnessResult:
    def __init__(self, name):
        self.name = name
        self.status = "missing"          # success | failure | missing
        self.duration_s = 0.0
        self.failed_checks = []          # [{description, function, file, line, category}]
        self.covers_total = 0
        self.covers_satisfied = 0
        self.unsat_covers = []
        self.n_checks = 0
        self.n_unreachable = 0
        self.stats = {}
        self.functions = set()
        self.source = {}

    @property
    def only_unwinding_failures(self):
        return bool(self.failed_checks) and all(
            "unwinding assertion" in c["description"] for c in self.failed_checks)

    def verdict(self):
        """pass | violation | inconclusive(reason)"""
        if self.status == "success":
            if self.covers_satisfied < self.covers_total:
                return "inconclusive", "vacuity: cover point(s) not satisfiable: %s" % self.unsat_covers
            return "pass", ""
        if self.status == "failure":
            if not self.failed_checks:
                return "inconclusive", "no verdict (timeout / out of memory / CBMC error)"
            if self.only_unwinding_failures:
                return "inconclusive", "unwinding bound too small: %s" % self.failed_checks[0]
            real = [c for c in self.failed_checks if "unwinding assertion" not in c["description"]]
            if any(c["description"].strip('"\' ').startswith("harness:") for c in real):
                return "inconclusive", "harness self-check failed: %s" % real[0]["description"]
            return "violation", ""
        return "inconclusive", "harness did not run"

    def to_json(self):
        v, why = self.verdict()
        return {"harness": self.name, "verdict": v, "why": why, "duration_s": round(self.duration_s, 2),
                "checks": self.n_checks, "unreachable": self.n_unreachable,
                "covers": "%d/%d" % (self.covers_satisfied, self.covers_total),
                "failed_checks": self.failed_checks[:8], "cbmc": self.stats}


def _repo_rel(path):
    if path and path.startswith(REPO + "/"):
        return path[len(REPO) + 1:]
    return None


def parse_kani_json(path, wanted=None):
    with open(path) as fh:
        d = json.load(fh)
    res = {}
    meta = {m["pretty_name"]: m for m in d.get("harness_metadata", [])}
    for name, m in meta.items():
        r = HarnessResult(name)
        r.source = m.get("source", {})
        res[name] = r
    for x in d.get("cbmc", []):
        r = res.get(x["harness_id"])
        if r:
            r.stats = {k: v for k, v in (x.get("cbmc_stats") or {}).items()}
    for x in d.get("verification_results", {}).get("results", []):
        r = res.setdefault(x["harness_id"], HarnessResult(x["harness_id"]))
        r.status = "success" if x["status"] == "Success" else "failure"
        r.duration_s = x.get("duration_ms", 0) / 1000.0
        for c in x.get("checks", []):
            st = c.get("status")
            loc = c.get("location") or {}
            rel = _repo_rel(loc.get("file") or "")
            if rel and c.get("function"):
                r.functions.add("%s :: %s" % (rel, c["function"]))
            if c.get("category") == "cover" or st in ("Satisfied", "Unsatisfiable"):
                r.covers_total += 1
                if st == "Satisfied":
                    r.covers_satisfied += 1
                else:
                    r.unsat_covers.append("%s:%s %s" % (loc.get("file"), loc.get("line"), c.get("description")))
                continue
            r.n_checks += 1
            if st == "Unreachable":
                r.n_unreachable += 1
            if st == "Failure":
                r.failed_checks.append({"description": c.get("description", ""), "function": c.get("function", ""),
                                        "file": loc.get("file", ""), "line": loc.get("line", ""),
                                        "category": c.get("category", "")})
    tools = d.get("tools", {})
    return res, tools


def kani_run(crate_dir, tag, filters=None, exact=False, features=None, harness_timeout=600, jobs=None,
             extra_args=None, overall_timeout=None, target_dir=None):
    """Run cargo kani on `crate_dir`; returns ({harness: HarnessResult}, tools, raw_log, build_ok)."""
    os.makedirs(CACHE, exist_ok=True)
    target_dir = target_dir or os.path.join(CACHE, "target-" + tag)
    out_json = os.path.join(CACHE, "kani-%s-%d.json" % (tag, os.getpid()))
    if os.path.exists(out_json):
        os.remove(out_json)
    cmd = ["cargo", "kani", "--target-dir", target_dir, "-Z", "unstable-options",
           "--harness-timeout", "%ds" % harness_timeout, "-j", str(jobs or max(2, NCPU - 2)),
           "--output-format", "terse", "--export-json", out_json]
    if features:
        cmd += ["--features", ",".join(features)]
    for f in filters or []:
        cmd += ["--harness", f]
    if exact:
        cmd += ["--exact"]
    cmd += extra_args or []
    t0 = time.time()
    try:
        rc, out = sh(cmd, cwd=crate_dir, timeout=overall_timeout)
    except subprocess.TimeoutExpired as e:
        rc, out = 124, (e.stdout or "") if isinstance(e.stdout, str) else ""
    wall = time.time() - t0
    build_ok = os.path.exists(out_json)
    res, tools = ({}, {})
    if build_ok:
        try:
            res, tools = parse_kani_json(out_json)
        except Exception as e:  # malformed export: treat as no verdicts
            out += "\n[vlib] could not parse %s: %r" % (out_json, e)
            build_ok = False
        os.remove(out_json)
    return res, tools, out, build_ok, wall


def compile_error_summary(out):
    errs = re.findall(r"^error(?:\[E\d+\])?: .*$", out, flags=re.M)
    return errs[:10]


# ------------------------------------------------------------------------------------------------
# native replay of counterexamples (concrete playback)
# ------------------------------------------------------------------------------------------------

def _patch_visibility(dst, harness):
    """In the scratch copy only: make the harness function and nested harness modules pub(crate) so
    that the generated playback tests (kept in their own module) can call the harness by path."""
    fn = harness.split("::")[-1]
    for p in glob.glob(os.path.join(dst, "src", "**", "*.rs"), recursive=True):
        with open(p) as fh:
            s = fh.read()
        s2 = re.sub(r"(?m)^(\s*)fn (%s|\$name)\(" % re.escape(fn), r"\1pub(crate) fn \2(", s)
        s2 = re.sub(r"(?m)^(\s*)mod (\$?\w+) \{", r"\1pub(crate) mod \2 {", s2)
        if s2 != s:
            with open(p, "w") as fh:
                fh.write(s2)


def kani_replay(crate_dir, harness, features=None, keep_dir=None, unwind_timeout=900, lib_rs="src/lib.rs"):
    """Re-run `harness` with concrete playback (print mode) in a scratch copy of the crate, put the
    generated unit tests for the *failing* checks (not the cover witnesses) into their own module
    and execute them natively (`cargo kani playback`, dev profile; then under valgrind if the plain
    run does not fail).  Returns dict(reproduced, how, test, log)."""
    scratch = mkscratch("replay")
    try:
        dst = os.path.join(scratch, "crate")
        shutil.copytree(crate_dir, dst, ignore=shutil.ignore_patterns("target"))
        # includes that are relative to /verif (generated files under cache/) must survive the move
        for pth in glob.glob(os.path.join(dst, "src", "**", "*.rs"), recursive=True):
            with open(pth) as fh:
                txt = fh.read()
            if "../../../cache/" in txt:
                with open(pth, "w") as fh:
                    fh.write(txt.replace("../../../cache/", CACHE + "/"))
        tdir = os.path.join(scratch, "target")
        cmd = ["cargo", "kani", "--target-dir", tdir, "-Z", "unstable-options", "-Z", "concrete-playback", "-Z", "stubbing",
               "--concrete-playback=print", "--harness-timeout", "%ds" % unwind_timeout,
               "--harness", harness, "--exact"]
        if features:
            cmd += ["--features", ",".join(features)]
        rc, out = sh(cmd, cwd=dst, timeout=unwind_timeout + 300)
        tests = []
        for m in re.finditer(r"/// Check for `([^`]*)`: (.*?)\n\s*\n?#\[test\]\nfn (kani_concrete_playback_\w+)\(\) \{\n(.*?)\n\}\n", out, flags=re.S):
            kind, desc, name, body = m.group(1), m.group(2).strip(), m.group(3), m.group(4)
            if kind == "cover":
                continue
            tests.append((kind, desc, name, body))
        result = {"reproduced": False, "how": "Kani generated no concrete test for a failing check", "test": "",
                  "log": out[-3000:]}
        if tests:
            _patch_visibility(dst, harness)
            fn = harness.split("::")[-1]
            path = "crate::" + harness
            modsrc = "// generated by vlib.kani_replay\n#![allow(unused)]\n"
            seen = set()
            for kind, desc, name, body in tests:
                if name in seen:
                    continue
                seen.add(name)
                body = re.sub(r"concrete_playback_run\(concrete_vals, \w+\)", "concrete_playback_run(concrete_vals, %s)" % path, body)
                modsrc += "/// %s: %s\n#[test]\nfn %s() {\n%s\n}\n" % (kind, desc.replace("\n", " "), name, body)
            with open(os.path.join(dst, "src", "zz_playback.rs"), "w") as fh:
                fh.write(modsrc)
            with open(os.path.join(dst, lib_rs), "a") as fh:
                fh.write("\n#[cfg(all(test, kani))]\nmod zz_playback;\n")
            pcmd = ["cargo", "kani", "playback", "-Z", "concrete-playback"]
            if features:
                pcmd += ["--features", ",".join(features)]
            env = dict(ENV)
            env["CARGO_TARGET_DIR"] = tdir
            rc2, out2 = sh(pcmd + ["--lib", "--", "zz_playback::"], cwd=dst, timeout=1200, env=env)
            if "unexpected argument" in out2 or "error: Found argument" in out2:
                rc2, out2 = sh(pcmd + ["--", "zz_playback::"], cwd=dst, timeout=1200, env=env)
            result["test"] = ", ".join(sorted(seen))
            result["log"] = out2[-5000:]
            failed_natively = re.search(r"panicked at|test result: FAILED|signal: \d+|SIGABRT|SIGSEGV|double free|process didn't exit successfully", out2)
            if rc2 != 0 and failed_natively and "error: could not compile" not in out2 and "error[E" not in out2:
                result["reproduced"] = True
                m = re.search(r"panicked at [^\n]*\n[^\n]*", out2)
                result["how"] = "native playback test fails: " + (m.group(0).replace("\n", " ") if m else "abort/signal")
            elif rc2 == 0:
                rc3, out3 = sh(pcmd + ["--only-codegen"], cwd=dst, timeout=1200, env=env)
                bins = [b for b in glob.glob(os.path.join(tdir, "**", "*"), recursive=True)
                        if os.path.isfile(b) and os.access(b, os.X_OK) and re.fullmatch(r"[\w]+-[0-9a-f]{16}", os.path.basename(b))]
                for b in bins:
                    rc4, out4 = sh(["valgrind", "--error-exitcode=97", "-q", "--leak-check=full", "--errors-for-leak-kinds=definite", b,
                                    "zz_playback::", "--test-threads", "1"], cwd=dst, timeout=1200, env=env)
                    if "running" in out4:
                        if rc4 == 97 or re.search(r"Invalid (read|write|free)|definitely lost", out4):
                            result["reproduced"] = True
                            result["how"] = "valgrind reports a memory error or a definite leak in the native playback test"
                            result["log"] = out4[-5000:]
                        else:
                            result["how"] = "native playback test passes, also under valgrind"
                        break
            else:
                result["how"] = "playback test did not build/run"
        if keep_dir:
            os.makedirs(keep_dir, exist_ok=True)
            with open(os.path.join(keep_dir, "%s.playback.txt" % harness.replace("::", "__")), "w") as fh:
                fh.write("harness: %s\ncrate: %s\ntests: %s\nreproduced: %s\nhow: %s\n\n"
                         "To replay by hand: copy the crate, append the tests below as a module, run\n"
                         "  cargo kani playback -Z concrete-playback -- zz_playback::\n\n--- native run ---\n%s\n"
                         % (harness, crate_dir, result["test"], result["reproduced"], result["how"], result["log"]))
                for kind, desc, name, body in tests:
                    fh.write("\n--- generated test for failing check `%s`: %s ---\n#[test]\nfn %s() {\n%s\n}\n" % (kind, desc, name, body))
        return result
    finally:
        shutil.rmtree(scratch, ignore_errors=True)


# ------------------------------------------------------------------------------------------------
# known findings
# ------------------------------------------------------------------------------------------------

def load_known():
    if not os.path.exists(KNOWN):
        return []
    with open(KNOWN) as fh:
        return json.load(fh).get("findings", [])


def match_known(prop, harness, failed_checks):
    """A violation is suppressed only by a `known` entry whose property, harness role regex and
    failing-check regex all match every failing check.  `fixed` entries never suppress."""
    for k in load_known():
        if k.get("status") != "known" or k.get("property") != prop:
            continue
        if not re.search(k.get("harness_role", "^$"), harness):
            continue
        pat = k.get("failing_check", "^$")
        if failed_checks and all(re.search(pat, c["description"] + " @ " + c.get("function", "")) for c in failed_checks):
            return k
    return None


# ------------------------------------------------------------------------------------------------
# evidence
# ------------------------------------------------------------------------------------------------

def write_evidence(prop, level, coverage, assumptions, wall_s, violations, extra=None):
    os.makedirs(EVID, exist_ok=True)
    ev = {"property_id": prop, "tier": tier(), "seed": seed(), "level": level, "coverage": coverage,
          "assumptions": assumptions, "wall_s": round(wall_s, 1), "violations": violations}
    if extra:
        ev.update(extra)
    tmp = os.path.join(EVID, ".%s.json.tmp" % prop)
    with open(tmp, "w") as fh:
        json.dump(ev, fh, indent=1, sort_keys=False)
    os.replace(tmp, os.path.join(EVID, "%s.json" % prop))


def summarize_kani(results):
    """Aggregate CBMC figures over HarnessResult objects."""
    vccs = sum(int(r.stats.get("vccs_generated", 0) or 0) for r in results)
    vccs_rem = sum(int(r.stats.get("vccs_remaining", 0) or 0) for r in results)
    steps = sum(int(r.stats.get("size_program_expression", 0) or 0) for r in results)
    solver_s = sum(float(r.stats.get("runtime_solver_s", 0) or 0) for r in results)
    symex_s = sum(float(r.stats.get("runtime_symex_s", 0) or 0) for r in results)
    checks = sum(r.n_checks for r in results)
    covers_t = sum(r.covers_total for r in results)
    covers_s = sum(r.covers_satisfied for r in results)
    funcs = sorted(set().union(*[r.functions for r in results])) if results else []
    return {"vccs_generated": vccs, "vccs_after_slicing": vccs_rem, "ssa_steps": steps,
            "solver_s": round(solver_s, 2), "symex_s": round(symex_s, 2), "cbmc_checks": checks,
            "covers_total": covers_t, "covers_satisfied": covers_s, "functions": funcs}
