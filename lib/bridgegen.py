"""E2: generator of bridge modules (the bound on "programs", DESIGN.md 2.4).

An IR for the documented type grammar, Rust emission of `#[diplomat::bridge] mod ffi { .. }` with
*observable* method bodies: every body logs its arguments, flattened to leaves, into ARG_LOG, bumps
CALLS, builds its return value from the symbolic SEED and logs it into RET_LOG.
"""
import random

INT_PRIMS = ["i8", "u8", "i16", "u16", "i32", "u32", "i64", "u64", "isize", "usize"]
ALL_PRIMS = INT_PRIMS + ["f32", "f64", "bool", "DiplomatChar", "DiplomatByte"]


class T:
    borrowed = False        # mentions lifetime 'a when used in a return / struct field

    def rust(self, lt=None):
        raise NotImplementedError

    def key(self):
        return self.rust("'a")


class Prim(T):
    def __init__(self, name):
        assert name in ALL_PRIMS, name
        self.name = name

    def rust(self, lt=None):
        return self.name

    def leaf(self, e):
        n = self.name
        if n == "f32" or n == "f64":
            return "(%s).to_bits() as i128" % e
        return "(%s) as i128" % e

    def log(self, e, l, ctx):
        return ["%s.push(%s);" % (l, self.leaf(e))]

    def mk(self, ctx):
        n = self.name
        if n == "f32":
            return "f32::from_bits(vs::seed() as u32)"
        if n == "f64":
            return "f64::from_bits(vs::seed())"
        if n == "bool":
            return "(vs::seed() & 1 == 1)"
        if n in ("DiplomatChar",):
            return "(vs::seed() as u32)"
        if n == "DiplomatByte":
            return "(vs::seed() as u8)"
        return "(vs::seed() as %s)" % n

    def nleaves(self, mod):
        return 1


class EnumT(T):
    def __init__(self, name):
        self.name = name

    def rust(self, lt=None):
        return self.name

    def log(self, e, l, ctx):
        return ["%s.push((%s) as i32 as i128);" % (l, e)]

    def mk(self, ctx):
        return "hp::seed_%s()" % self.name

    def nleaves(self, mod):
        return 1


class StructT(T):
    def __init__(self, name, borrowed=False):
        self.name = name
        self.borrowed = borrowed

    def rust(self, lt=None):
        if self.borrowed:
            return "%s<%s>" % (self.name, lt or "'_")
        return self.name

    def log(self, e, l, ctx):
        return ["hp::log_%s(%s, &(%s));" % (self.name, l, e)]

    def mk(self, ctx):
        return "hp::seed_%s()" % self.name

    def nleaves(self, mod):
        return sum(f[1].nleaves(mod) for f in mod.structs[self.name].fields)


class OpaqueRef(T):
    """&O, &mut O, Option<&O>"""

    def __init__(self, name, mut=False, optional=False, as_self=False):
        self.name, self.mut, self.optional = name, mut, optional
        self.as_self = as_self          # spelled with the `Self` keyword inside the type's own impl block
        self.borrowed = True

    def rust(self, lt=None):
        r = "&%s%s%s" % ((lt + " ") if lt else "", "mut " if self.mut else "", "Self" if self.as_self else self.name)
        return "Option<%s>" % r if self.optional else r

    def log(self, e, l, ctx):
        one = ["%s.push((&*%s) as *const %s as usize as i128);" % (l, "{v}", self.name), "%s.push({v}.tag as i128);" % l]
        if self.optional:
            return ["match &(%s) { Some(v) => { %s.push(1); %s } None => %s.push(0) }" % (
                e, l, " ".join(s.format(v="(*v)") for s in one), l)]
        return [s.format(v="(%s)" % e) for s in one]

    def nleaves(self, mod):
        return 3 if self.optional else 2


class OpaqueBox(T):
    """Box<O>, Option<Box<O>> (outputs only)"""

    def __init__(self, name, optional=False):
        self.name, self.optional = name, optional

    def rust(self, lt=None):
        return "Option<Box<%s>>" % self.name if self.optional else "Box<%s>" % self.name

    def log(self, e, l, ctx):
        if self.optional:
            return ["match &(%s) { Some(b) => { %s.push(1); %s.push((&**b) as *const %s as usize as i128); %s.push(b.tag as i128); } None => %s.push(0) }"
                    % (e, l, l, self.name, l, l)]
        return ["%s.push((&*(%s)) as *const %s as usize as i128);" % (l, e, self.name), "%s.push((%s).tag as i128);" % (l, e)]

    def mk(self, ctx):
        new = "Box::new(%s::verif_new(vs::seed() as u32))" % self.name
        if self.optional:
            return "if vs::seed() & 1 == 1 { Some(%s) } else { None }" % new
        return new

    def nleaves(self, mod):
        return 3 if self.optional else 2


import os as _os
SLICE_MAX = 4 if _os.environ.get("VERIF_TIER") == "thorough" else 3


class Slice(T):
    """&[T] / &mut [T] / Box<[T]> of a primitive, std or DiplomatSlice spelling"""

    def __init__(self, elem, kind="ref", spelling="std"):
        assert kind in ("ref", "mut", "box")
        self.elem, self.kind, self.spelling = elem, kind, spelling
        self.borrowed = kind != "box"

    def rust(self, lt=None):
        e = self.elem.rust()
        l = (lt + " ") if lt else ""
        lc = (lt + ", ") if lt else ""
        if self.spelling == "std":
            return {"ref": "&%s[%s]" % (l, e), "mut": "&%smut [%s]" % (l, e), "box": "Box<[%s]>" % e}[self.kind]
        return {"ref": "DiplomatSlice<%s%s>" % (lc, e), "mut": "DiplomatSliceMut<%s%s>" % (lc, e),
                "box": "DiplomatOwnedSlice<%s>" % e}[self.kind]

    def log(self, e, l, ctx):
        out = ["{ let s: &[%s] = &(%s)[..]; %s.push(s.len() as i128); let mut i = 0; while i < s.len() { %s.push(%s); i += 1; }"
               % (self.elem.rust(), e, l, l, self.elem.leaf("s[i]"))]
        if ctx == "ret":
            out.append("if s.len() > 0 { %s.push(s.as_ptr() as usize as i128); }" % l)
        out.append("}")
        return [" ".join(out)]

    def nleaves(self, mod):
        return 2 + SLICE_MAX

    def mk(self, ctx):
        """a borrowed value for callback arguments: a seed-chosen prefix of a static array"""
        assert self.kind == "ref" and self.spelling == "std" and self.elem.name in ("u8", "u16", "u32")
        arr = {"u8": "vs::MULTIBYTE", "u16": "vs::WIDE", "u32": "vs::QUADS"}[self.elem.name]
        return "{ let k = (vs::seed() & 3) as usize; &%s[..k] }" % arr


class Str(T):
    """&str / &DiplomatStr / &DiplomatStr16 / Box<str> .. ; enc in utf8|unval8|utf16"""

    def __init__(self, enc="utf8", kind="ref", spelling="std"):
        assert enc in ("utf8", "unval8", "utf16") and kind in ("ref", "box")
        self.enc, self.kind, self.spelling = enc, kind, spelling
        self.borrowed = kind == "ref"

    def rust(self, lt=None):
        l = (lt + " ") if lt else ""
        lc = (lt) if lt else "'_"
        if self.spelling == "std":
            inner = {"utf8": "str", "unval8": "DiplomatStr", "utf16": "DiplomatStr16"}[self.enc]
            return "&%s%s" % (l, inner) if self.kind == "ref" else "Box<%s>" % inner
        if self.kind == "ref":
            return {"utf8": "DiplomatUtf8StrSlice<%s>" % lc, "unval8": "DiplomatStrSlice<%s>" % lc,
                    "utf16": "DiplomatStr16Slice<%s>" % lc}[self.enc]
        return {"utf8": "DiplomatOwnedUTF8StrSlice", "unval8": "DiplomatOwnedStrSlice", "utf16": "DiplomatOwnedStr16Slice"}[self.enc]

    def elem(self):
        return Prim("u16") if self.enc == "utf16" else Prim("u8")

    def mk(self, ctx):
        """a borrowed value for callback arguments: a seed-chosen prefix of a static array (a valid prefix for &str)"""
        assert self.kind == "ref" and self.spelling == "std"
        if self.enc == "utf16":
            return "{ let k = (vs::seed() & 3) as usize; &vs::WIDE[..k] }"
        if self.enc == "unval8":
            return "{ let k = (vs::seed() & 3) as usize; &vs::MULTIBYTE[..k] }"
        return "{ let k = vs::seed() & 3; let n: usize = match k { 0 => 0, 1 => 1, 2 => 2, _ => 4 }; core::str::from_utf8_unchecked(&vs::MULTIBYTE[..n]) }"

    def log(self, e, l, ctx):
        el = self.elem().rust()
        if self.enc == "utf8":
            view = "let s: &[u8] = (&(%s)[..]).as_bytes();" % e
        else:
            view = "let s: &[%s] = &(%s)[..];" % (el, e)
        out = ["{ %s %s.push(s.len() as i128); let mut i = 0; while i < s.len() { %s.push(s[i] as i128); i += 1; }" % (view, l, l)]
        if ctx == "ret":
            out.append("if s.len() > 0 { %s.push(s.as_ptr() as usize as i128); }" % l)
        out.append("}")
        return [" ".join(out)]

    def nleaves(self, mod):
        return 2 + SLICE_MAX


class StrSlice(T):
    """&[DiplomatStrSlice] etc. (slice of string views)"""

    def __init__(self, enc="unval8"):
        self.enc = enc
        self.borrowed = True

    def rust(self, lt=None):
        l = (lt + " ") if lt else ""
        inner = {"utf8": "DiplomatUtf8StrSlice", "unval8": "DiplomatStrSlice", "utf16": "DiplomatStr16Slice"}[self.enc]
        return "&%s[%s]" % (l, inner)

    def log(self, e, l, ctx):
        el = "u16" if self.enc == "utf16" else "u8"
        conv = "(&(o[j])[..]).as_bytes()" if self.enc == "utf8" else "&(o[j])[..]"
        return ["{ let o = &(%s)[..]; %s.push(o.len() as i128); let mut j = 0; while j < o.len() { let s: &[%s] = %s; %s.push(s.len() as i128); "
                "let mut i = 0; while i < s.len() { %s.push(s[i] as i128); i += 1; } j += 1; } }" % (e, l, el, conv, l, l)]

    def nleaves(self, mod):
        return 1 + 2 * (1 + 2)


class Opt(T):
    """Option<T> / DiplomatOption<T> for non-pointer payloads (prim, enum, struct, slice)"""

    def __init__(self, inner, spelling="std"):
        self.inner, self.spelling = inner, spelling
        self.borrowed = bool(inner and inner.borrowed)

    def rust(self, lt=None):
        return ("Option<%s>" if self.spelling == "std" else "DiplomatOption<%s>") % (self.inner.rust(lt) if self.inner else "()")

    def log(self, e, l, ctx):
        if self.inner is None:
            return ["%s.push((%s).is_some() as i128);" % (l, e)]
        inner = " ".join(self.inner.log("*v" if not isinstance(self.inner, (Slice, Str)) else "*v", l, ctx))
        if self.spelling == "std":
            return ["match &(%s) { Some(v) => { %s.push(1); %s } None => %s.push(0) }" % (e, l, inner, l)]
        return ["match (%s).as_ref() { Ok(v) => { %s.push(1); %s } Err(_) => %s.push(0) }" % (e, l, inner, l)]

    def mk(self, ctx):
        if self.inner is None:
            return "if vs::seed() & 1 == 1 { Some(()) } else { None }"
        if self.spelling == "std":
            return "if vs::seed() & 1 == 1 { Some(%s) } else { None }" % self.inner.mk(ctx)
        return "if vs::seed() & 1 == 1 { DiplomatOption::from(Some(%s)) } else { DiplomatOption::from(None) }" % self.inner.mk(ctx)

    def nleaves(self, mod):
        return 1 + (self.inner.nleaves(mod) if self.inner else 0)


class Res(T):
    """Result<T,E> / DiplomatResult<T,E>; ok/err may be None (unit)"""

    def __init__(self, ok, err, spelling="std"):
        self.ok, self.err, self.spelling = ok, err, spelling
        self.borrowed = bool((ok and ok.borrowed) or (err and err.borrowed))

    def rust(self, lt=None):
        o = self.ok.rust(lt) if self.ok else "()"
        e = self.err.rust(lt) if self.err else "()"
        return ("Result<%s, %s>" if self.spelling == "std" else "DiplomatResult<%s, %s>") % (o, e)

    def log(self, e, l, ctx):
        lo = " ".join(self.ok.log("*v", l, ctx)) if self.ok else ""
        le = " ".join(self.err.log("*v", l, ctx)) if self.err else ""
        src = "&(%s)" % e if self.spelling == "std" else "(%s).as_ref()" % e
        return ["match %s { Ok(v) => { %s.push(1); %s } Err(v) => { %s.push(0); %s } }" % (src, l, lo, l, le)]

    def mk(self, ctx):
        o = self.ok.mk(ctx) if self.ok else "()"
        e = self.err.mk(ctx) if self.err else "()"
        if self.spelling == "std":
            return "if vs::seed() & 1 == 1 { Ok(%s) } else { Err(%s) }" % (o, e)
        return "if vs::seed() & 1 == 1 { DiplomatResult::from(Ok(%s)) } else { DiplomatResult::from(Err(%s)) }" % (o, e)

    def nleaves(self, mod):
        return 1 + max(self.ok.nleaves(mod) if self.ok else 0, self.err.nleaves(mod) if self.err else 0)


class Ordering(T):
    def rust(self, lt=None):
        return "core::cmp::Ordering"

    def log(self, e, l, ctx):
        return ["%s.push((%s) as i8 as i128);" % (l, e)]

    def mk(self, ctx):
        return "match vs::seed() & 3 { 0 => core::cmp::Ordering::Less, 1 => core::cmp::Ordering::Equal, _ => core::cmp::Ordering::Greater }"

    def nleaves(self, mod):
        return 1


class Write(T):
    def __init__(self, named=False):
        self.named = named        # spelled with the method's named lifetime: &'a mut DiplomatWrite

    def rust(self, lt=None):
        return "&'a mut DiplomatWrite" if self.named else "&mut DiplomatWrite"


class Callback(T):
    def __init__(self, params, ret):
        self.params, self.ret = params, ret

    def rust(self, lt=None):
        r = " -> %s" % self.ret.rust() if self.ret else ""
        return "impl Fn(%s)%s" % (", ".join(p.rust() for p in self.params), r)


class PassThrough:
    """return value marker: return (a sub-slice of) the named borrowed parameter / self"""

    def __init__(self, param, sub=False, optional=False):
        self.param, self.sub, self.optional = param, sub, optional


# ------------------------------------------------------------------------------------------------

class EnumDef:
    def __init__(self, name, variants, disabled_in=()):
        self.name = name
        self.variants = variants        # [(vname, explicit_disc or None)]
        self.disabled_in = tuple(disabled_in)   # back ends for which the author wrote #[diplomat::attr(<backend>, disable)]

    def values(self):
        out, last = [], -1
        for n, d in self.variants:
            last = d if d is not None else last + 1
            out.append((n, last))
        return out


class StructDef:
    def __init__(self, name, fields, out=False, user_repr=False, disabled_in=()):
        self.name, self.fields, self.out = name, fields, out   # fields: [(fname, T)]
        self.user_repr = user_repr                             # the bridge author wrote #[repr(C)] themselves
        self.disabled_in = tuple(disabled_in)                  # #[diplomat::attr(<backend>, disable)] written on the type

    @property
    def borrowed(self):
        return any(t.borrowed for _, t in self.fields)


class OpaqueDef:
    def __init__(self, name):
        self.name = name


class Method:
    def __init__(self, owner, name, self_kind, params, ret, ret_from=None, abi_rename=None):
        """self_kind: None (static) | 'ref' | 'mut' | 'val'; params: [(name, T)]; ret: T | None;
        ret_from: PassThrough for borrowed returns"""
        self.owner, self.name, self.self_kind, self.params, self.ret, self.ret_from = owner, name, self_kind, params, ret, ret_from
        self.abi_rename = abi_rename

    @property
    def has_write(self):
        return any(isinstance(t, Write) for _, t in self.params)

    def abi_name(self):
        return self.abi_rename or "%s_%s" % (self.owner, self.name)


class Module:
    def __init__(self, name):
        self.name = name
        self.enums, self.structs, self.opaques = {}, {}, {}
        self.methods = []
        self.order = []

    def add(self, d):
        {EnumDef: self.enums, StructDef: self.structs, OpaqueDef: self.opaques}[type(d)][d.name] = d
        self.order.append(d)
        return d

    def method(self, *a, **kw):
        m = Method(*a, **kw)
        self.methods.append(m)
        return m

    # ---- Rust emission -----------------------------------------------------------------------
    def owner_kind(self, name):
        return "enum" if name in self.enums else "struct" if name in self.structs else "opaque"

    def emit_type_defs(self):
        out = []
        err_types = {m.ret.err.name for m in self.methods if isinstance(m.ret, Res) and isinstance(m.ret.err, (EnumT, StructT))}
        for d in self.order:
            # the Kotlin back end insists on an `error` attribute on types used in the Err position
            kerr = "    #[diplomat::attr(kotlin, error)]\n" if d.name in err_types else ""
            kerr += "".join("    #[diplomat::attr(%s, disable)]\n" % b for b in getattr(d, "disabled_in", ()))
            if isinstance(d, EnumDef):
                vs_ = ", ".join("%s%s" % (n, " = %d" % v if v is not None else "") for n, v in d.variants)
                out.append("%s    #[derive(PartialEq, Eq, Debug)]\n    pub enum %s { %s }" % (kerr, d.name, vs_))
            elif isinstance(d, StructDef):
                lt = "<'a>" if d.borrowed else ""
                fs = ", ".join("pub %s: %s" % (n, t.rust("'a")) for n, t in d.fields)
                attr = kerr + ("    #[diplomat::out]\n" if d.out else "") + ("    #[repr(C)]\n" if getattr(d, "user_repr", False) else "")
                out.append("%s    pub struct %s%s { %s }" % (attr, d.name, lt, fs))
            else:
                out.append("    #[diplomat::opaque]\n    pub struct %s { pub(crate) tag: u32, pub(crate) cell: Box<u8> }" % d.name)
        return "\n".join(out)

    def emit_method(self, m):
        uses_a = (m.ret is not None and m.ret.borrowed) or any(isinstance(t, Write) and t.named for _, t in m.params)
        lt = "'a" if uses_a else None
        gen = "<'a>" if uses_a else ""
        ps = []
        if m.self_kind == "ref":
            ps.append("&%sself" % ("'a " if uses_a else ""))
        elif m.self_kind == "mut":
            ps.append("&%smut self" % ("'a " if uses_a else ""))
        elif m.self_kind == "val":
            ps.append("self")
        for n, t in m.params:
            if isinstance(t, (Write, Callback)):
                ps.append("%s: %s" % (n, t.rust()))
            else:
                ps.append("%s: %s" % (n, t.rust(lt if (uses_a and t.borrowed) else None)))
        ret = " -> %s" % m.ret.rust(lt) if m.ret is not None else ""
        body = ["unsafe {", "vs::CALLS += 1;", "let l = vs::arg_log();"]
        kind = self.owner_kind(m.owner)
        if m.self_kind in ("ref", "mut") and kind == "opaque":
            body += OpaqueRef(m.owner, mut=(m.self_kind == "mut")).log("self", "l", "arg")
        elif m.self_kind == "val":
            body += (EnumT(m.owner) if kind == "enum" else StructT(m.owner)).log("self", "l", "arg")
        post = []
        for n, t in m.params:
            if isinstance(t, Write):
                body.append("{ use core::fmt::Write; let k = vs::seed() & 3; "
                            "let n: usize = match k { 0 => 0, 1 => 1, 2 => 2, _ => 4 }; let s: &str = core::str::from_utf8_unchecked(&vs::MULTIBYTE[..n]); "
                            "let _ = %s.write_str(s); let _ = %s.write_str(\"\"); vs::note_written(s.as_bytes()); }" % (n, n))
            elif isinstance(t, Callback):
                args = []
                sent = []
                for i, p in enumerate(t.params):
                    args.append("a%d" % i)
                    body.append("let a%d: %s = %s;" % (i, p.rust(), p.mk("cb")))
                    sent += p.log("a%d" % i, "vs::cb_sent()", "cb")
                body += sent
                if t.ret:
                    body.append("let cbr: %s = %s(%s);" % (t.ret.rust(), n, ", ".join(args)))
                    body += t.ret.log("cbr", "l", "arg")
                else:
                    body.append("%s(%s);" % (n, ", ".join(args)))
            else:
                body += t.log(n, "l", "arg")
                if isinstance(t, Slice) and t.kind == "mut":
                    # write through the mutable view so that the caller can observe it
                    if t.spelling != "std":
                        body.append("let mut %s = %s;" % (n, n))
                    post.append("if %s.len() > 0 { %s[0] = %s; }" % (n, n, _bump(t.elem, "%s[0]" % n)))
        body += post
        if m.ret is not None:
            if m.ret_from is not None:
                p = m.ret_from.param
                if m.ret_from.sub and m.ret_from.optional:
                    # Option<borrowed slice>: None, or Some(prefix) - the prefix may be empty, which is still Some
                    body.append("let r: %s = { let k = (vs::seed() & 3) as usize; let k = if k > %s.len() { %s.len() } else { k }; "
                                "if vs::seed() & 1 == 1 { Some(&%s[..k]) } else { None } };" % (m.ret.rust(lt), p, p, p))
                elif m.ret_from.sub:
                    body.append("let r: %s = { let k = (vs::seed() & 3) as usize; let k = if k > %s.len() { %s.len() } else { k }; &%s[..k] };"
                                % (m.ret.rust(lt), p, p, p))
                elif isinstance(m.ret, OpaqueRef) and m.ret.optional:
                    body.append("let r: %s = if vs::seed() & 1 == 1 { Some(%s) } else { None };" % (m.ret.rust(lt), p))
                else:
                    body.append("let r: %s = %s;" % (m.ret.rust(lt), p))
            else:
                body.append("let r: %s = %s;" % (m.ret.rust(lt), m.ret.mk("ret")))
            body.append("let rl = vs::ret_log();")
            body += m.ret.log("r", "rl", "ret")
            body.append("r")
        body.append("}")
        attr = "        #[diplomat::abi_rename = \"%s\"]\n" % m.abi_rename if m.abi_rename else ""
        return "%s        pub fn %s%s(%s)%s {\n            %s\n        }" % (attr, m.name, gen, ", ".join(ps), ret, "\n            ".join(body))

    def emit_impls(self):
        out = []
        owners = []
        for m in self.methods:
            if m.owner not in owners:
                owners.append(m.owner)
        for o in owners:
            lt = "<'a>" if (o in self.structs and self.structs[o].borrowed) else ""
            # impl blocks of borrowed structs name their own lifetime; methods there do not add another <'a>
            ms = "\n".join(self.emit_method(m) for m in self.methods if m.owner == o)
            if lt:
                ms = ms.replace("<'a>(", "(")
            out.append("    impl%s %s%s {\n%s\n    }" % (lt, o, lt, ms))
        for o in self.opaques.values():
            out.append("    impl %s {\n        pub(crate) fn verif_new(tag: u32) -> %s { %s { tag, cell: Box::new(7) } }\n    }" % (o.name, o.name, o.name))
        return "\n".join(out)

    def emit_helpers(self):
        """mod hp: per-type log_/seed_ helpers + Drop impls (outside the bridge module)"""
        out = ["#[allow(unused, static_mut_refs)]\npub mod hp {", "    use crate::vs;", "    use crate::hp;", "    use crate::vs::Log;",
               "    use crate::ffi::*;", "    use diplomat_runtime::*;"]
        for d in self.order:
            if isinstance(d, EnumDef):
                vals = d.values()
                arms = " ".join("%d => %s::%s," % (i, d.name, n) for i, (n, _) in enumerate(vals[:-1]))
                out.append("    pub fn seed_%s() -> %s { match vs::seed() & 7 { %s _ => %s::%s } }" % (d.name, d.name, arms, d.name, vals[-1][0]))
            elif isinstance(d, StructDef):
                lt = "<'_>" if d.borrowed else ""
                body = " ".join(" ".join(t.log("x.%s" % n, "l", "field")) for n, t in d.fields)
                out.append("    pub fn log_%s(l: &mut Log, x: &%s%s) { unsafe { %s } }" % (d.name, d.name, lt, body))
                if all(hasattr(t, "mk") for _, t in d.fields) and not d.borrowed:
                    mk = ", ".join("%s: %s" % (n, t.mk("ret")) for n, t in d.fields)
                    out.append("    pub fn seed_%s() -> %s { %s { %s } }" % (d.name, d.name, d.name, mk))
            else:
                out.append("    impl Drop for %s { fn drop(&mut self) { unsafe { vs::DROPS += 1; vs::LAST_DROPPED_TAG = self.tag; } } }" % d.name)
        out.append("}")
        return "\n".join(out)

    def emit_lib(self, harness_text="", mirror_text="", mirror_mod="m"):
        uses = "    use diplomat_runtime::{DiplomatOption, DiplomatResult, DiplomatWrite, DiplomatStr, DiplomatStr16, DiplomatChar, DiplomatByte, " \
               "DiplomatSlice, DiplomatSliceMut, DiplomatOwnedSlice, DiplomatStrSlice, DiplomatStr16Slice, DiplomatUtf8StrSlice, " \
               "DiplomatOwnedStrSlice, DiplomatOwnedStr16Slice, DiplomatOwnedUTF8StrSlice};\n" \
               "    use crate::vs;\n    use crate::hp;\n"
        if harness_text:
            uses += "    #[cfg(kani)]\n    use crate::%s;\n" % mirror_mod
        return ("// generated by /verif/lib/bridgegen.py -- module %s\n#![allow(unused, static_mut_refs, non_snake_case, non_camel_case_types, improper_ctypes_definitions, clippy::all)]\n"
                "#[path = \"vsupport.rs\"]\npub mod vs;\n%s\n%s\n\n#[diplomat::bridge]\npub mod ffi {\n%s\n%s\n%s\n%s\n}\n"
                % (self.name, self.emit_helpers(), mirror_text, uses, self.emit_type_defs(), self.emit_impls(), harness_text))


def _bump(elem, e):
    n = elem.name
    if n in ("f32", "f64"):
        return "%s::from_bits((%s).to_bits() ^ 1)" % (n, e)
    if n == "bool":
        return "!(%s)" % e
    return "(%s).wrapping_add(1)" % e


# ------------------------------------------------------------------------------------------------
# M0: the fixed covering module set
# ------------------------------------------------------------------------------------------------

def m0_core():
    """Scalars, enums, structs (padding patterns), options (both spellings), results, opaques."""
    m = Module("m0_core")
    P = Prim
    m.add(EnumDef("En", [("A", -3), ("B", None), ("C", 7), ("D", None), ("E", 2147483647), ("F", -2147483648), ("G", 0), ("H", 5)]))
    m.add(EnumDef("Small", [("X", None), ("Y", None), ("Z", None)]))
    m.add(EnumDef("Solo", [("Only", 1000)]))
    m.add(EnumDef("Nz", [("Low", 1), ("High", 2)]))        # no variant with the all-zero bit pattern
    m.add(StructDef("Pad", [("a", P("u8")), ("b", P("u64")), ("c", P("i16")), ("d", P("u32")), ("e", P("bool"))]))
    m.add(StructDef("Rev", [("e", P("bool")), ("d", P("u32")), ("c", P("i16")), ("b", P("u64")), ("a", P("u8"))]))
    m.add(StructDef("Mixed", [("f", P("f32")), ("en", EnumT("En")), ("g", P("f64")), ("ch", P("DiplomatChar")), ("by", P("DiplomatByte")),
                              ("sz", P("usize")), ("isz", P("isize"))]))
    m.add(StructDef("Inner", [("x", P("i8")), ("y", P("i32"))]))
    m.add(StructDef("UserRepr", [("a", P("u8")), ("b", P("u64")), ("c", P("u16")), ("d", P("u32"))], user_repr=True))
    m.add(StructDef("Outer", [("p", P("u8")), ("inner", StructT("Inner")), ("q", P("u16")), ("s", EnumT("Small"))]))
    m.add(StructDef("WithOpt", [("a", Opt(P("u8"), "diplomat")), ("b", Opt(P("i64"), "diplomat")), ("c", Opt(EnumT("En"), "diplomat")),
                                ("d", Opt(StructT("Inner"), "diplomat")), ("e", P("u8"))]))
    m.add(StructDef("WithNz", [("k", P("u16")), ("z", Opt(EnumT("Nz"), "diplomat"))]))
    m.add(OpaqueDef("Op"))
    m.add(StructDef("OutS", [("o", OpaqueBox("Op")), ("n", P("i32")), ("p", OpaqueBox("Op", optional=True))], out=True))
    # every primitive as parameter and return
    for p in ALL_PRIMS:
        m.method("Op", "id_%s" % p.lower(), None, [("x", P(p))], P(p))
    m.method("Op", "many", "ref", [("a", P("i8")), ("b", P("u64")), ("c", P("f32")), ("d", P("bool")), ("e", P("i16")), ("f", P("DiplomatChar")),
                                   ("g", P("isize")), ("h", P("u8"))], P("i64"))
    m.method("Op", "new", None, [("tag", P("u32"))], OpaqueBox("Op"))
    m.method("Op", "maybe_new", None, [("tag", P("u32"))], OpaqueBox("Op", optional=True))
    m.method("Op", "try_new", None, [("tag", P("u32"))], Res(OpaqueBox("Op"), EnumT("En")))
    m.method("Op", "get", "ref", [], OpaqueRef("Op"), ret_from=PassThrough("self"))
    m.method("Op", "get_opt", "ref", [], OpaqueRef("Op", optional=True), ret_from=PassThrough("self"))
    m.method("Op", "get_mut", "mut", [("n", P("u8"))], P("u32"))
    m.method("Op", "get_mut_ref", "mut", [], OpaqueRef("Op", mut=True), ret_from=PassThrough("self"))
    m.method("Op", "get_mut_opt", "mut", [], OpaqueRef("Op", mut=True, optional=True), ret_from=PassThrough("self"))
    m.method("Op", "pick_mut", None, [("a", OpaqueRef("Op", mut=True)), ("k", P("u8"))], OpaqueRef("Op", mut=True, optional=True), ret_from=PassThrough("a"))
    m.method("Op", "other", "ref", [("o", OpaqueRef("Op")), ("p", OpaqueRef("Op", optional=True)), ("q", OpaqueRef("Op", mut=True))], None)
    m.method("Op", "self_spelled", "ref", [("o", OpaqueRef("Op", as_self=True)), ("p", OpaqueRef("Op", optional=True, as_self=True)), ("k", P("u8")),
                                           ("q", OpaqueRef("Op", mut=True, optional=True, as_self=True))], P("u8"))
    m.method("Op", "enums", None, [("a", EnumT("En")), ("b", EnumT("Small")), ("c", EnumT("Solo"))], EnumT("En"))
    m.method("Op", "ret_small", None, [], EnumT("Small"))
    m.method("Op", "pad", "ref", [("s", StructT("Pad")), ("t", StructT("Rev"))], StructT("Pad"))
    m.method("Op", "rev", None, [("t", StructT("Rev"))], StructT("Rev"))
    m.method("Op", "user_repr", None, [("t", StructT("UserRepr"))], StructT("UserRepr"))
    m.method("Op", "mixed", None, [("s", StructT("Mixed"))], StructT("Mixed"))
    m.method("Op", "nested", None, [("s", StructT("Outer")), ("i", StructT("Inner"))], StructT("Outer"))
    m.method("Op", "with_opt", None, [("s", StructT("WithOpt"))], StructT("WithOpt"))
    m.method("Op", "with_nz", None, [("s", StructT("WithNz"))], StructT("WithNz"))
    m.method("Op", "make_nz", None, [("k", P("u16"))], StructT("WithNz"))
    m.method("Op", "outs", "ref", [], StructT("OutS"))
    m.method("Op", "cmp", "ref", [("o", OpaqueRef("Op"))], Ordering())
    # Option / DiplomatOption pairs (C10), parameter and return position
    for nm, t in (("u8", P("u8")), ("i64", P("i64")), ("f64", P("f64")), ("bool", P("bool")), ("char", P("DiplomatChar")), ("en", EnumT("En")), ("nz", EnumT("Nz")), ("st", StructT("Inner")), ("pad", StructT("Pad"))):
        m.method("Op", "opt_std_%s" % nm, None, [("x", Opt(t, "std")), ("s", P("u8"))], Opt(t, "std"))
        m.method("Op", "opt_dip_%s" % nm, None, [("x", Opt(t, "diplomat")), ("s", P("u8"))], Opt(t, "diplomat"))
    # every remaining primitive as an option payload, in parameter, field and return position
    m.add(StructDef("OptPrims", [("a", Opt(P("i8"), "diplomat")), ("b", Opt(P("u16"), "diplomat")), ("c", Opt(P("f32"), "diplomat")),
                                 ("d", Opt(P("isize"), "diplomat")), ("e", Opt(P("i16"), "diplomat")), ("f", Opt(P("u64"), "diplomat"))]))
    m.method("Op", "opt_prims_in", None, [("a", Opt(P("i8"), "std")), ("b", Opt(P("u16"), "std")), ("c", Opt(P("f32"), "std")), ("d", Opt(P("isize"), "diplomat")),
                                         ("e", Opt(P("i32"), "std")), ("f", Opt(P("usize"), "diplomat")), ("g", Opt(P("DiplomatByte"), "std"))], Opt(P("i8"), "std"))
    m.method("Op", "opt_prims_struct", None, [("s", StructT("OptPrims"))], StructT("OptPrims"))
    m.method("Op", "opt_prims_make", None, [], StructT("OptPrims"))
    # Result / DiplomatResult pairs incl. unit arms
    combos = [("u8_en", P("u8"), EnumT("En")), ("st_u32", StructT("Pad"), P("u32")), ("unit_en", None, EnumT("En")), ("i16_unit", P("i16"), None),
              ("unit_unit", None, None), ("en_st", EnumT("Small"), StructT("Inner")), ("f32_i64", P("f32"), P("i64"))]
    for nm, o, e in combos:
        m.method("Op", "res_std_%s" % nm, "ref", [], Res(o, e, "std"))
        m.method("Op", "res_dip_%s" % nm, "ref", [], Res(o, e, "diplomat"))
    m.method("Op", "res_box_unit", None, [], Res(OpaqueBox("Op"), None))
    # out-structs in every output position (plain return, Option, both Result arms)
    m.add(StructDef("OutPlain", [("a", P("u16")), ("b", P("i64")), ("c", EnumT("Small"))], out=True))
    m.method("Op", "out_plain", None, [], StructT("OutPlain"))
    m.method("Op", "opt_out_plain", None, [], Opt(StructT("OutPlain"), "std"))
    m.method("Op", "res_std_u8_outp", None, [], Res(P("u8"), StructT("OutPlain"), "std"))
    m.method("Op", "res_dip_u8_outp", None, [], Res(P("u8"), StructT("OutPlain"), "diplomat"))
    m.method("Op", "res_std_outp_en", None, [], Res(StructT("OutPlain"), EnumT("En"), "std"))
    m.method("Op", "res_std_unit_outp", None, [], Res(None, StructT("OutPlain"), "std"))
    m.method("Op", "res_std_outs_u8", "ref", [], Res(StructT("OutS"), P("u8"), "std"))
    m.method("Op", "res_std_u8_outs", "ref", [], Res(P("u8"), StructT("OutS"), "std"))
    # struct / enum methods with by-value self
    m.method("Pad", "take_self", "val", [("k", P("u8"))], P("u64"))
    m.method("En", "en_self", "val", [], P("i32"))
    m.method("Op", "renamed", "ref", [("x", P("u16"))], P("u16"), abi_rename="verif_renamed_symbol")
    return m


def m0_slices():
    """Borrowed / mutable / owned slices of every primitive, strings, slices in structs and options, write."""
    m = Module("m0_slices")
    P = Prim
    m.add(OpaqueDef("Sl"))
    m.add(EnumDef("Er", [("Bad", 1), ("Worse", -1)]))
    m.add(StructDef("Views", [("a", Slice(P("u16"), "ref", "diplomat")), ("n", P("u8")), ("s", Str("utf8", "ref", "diplomat"))]))
    m.add(StructDef("Views2", [("t", Str("utf16", "ref", "diplomat")), ("k", P("i32")), ("u", Str("unval8", "ref", "diplomat"))]))
    prims = [p for p in ALL_PRIMS if p not in ("DiplomatChar", "DiplomatByte")]
    for p in prims:
        m.method("Sl", "sl_%s" % p, None, [("x", Slice(P(p), "ref"))], P("usize"))
    m.method("Sl", "sl_char", None, [("x", Slice(P("DiplomatChar"), "ref"))], P("usize"))
    m.method("Sl", "sl_byte", None, [("x", Slice(P("DiplomatByte"), "ref"))], P("usize"))
    for p in ("u8", "i16", "u32", "f64", "bool", "usize"):
        m.method("Sl", "mut_%s" % p, None, [("x", Slice(P(p), "mut"))], None)
    for p in ("u8", "u16", "i64", "f32"):
        m.method("Sl", "own_%s" % p, None, [("x", Slice(P(p), "box"))], P("usize"))
    m.method("Sl", "dip_spellings", None, [("a", Slice(P("i32"), "ref", "diplomat")), ("b", Slice(P("u8"), "mut", "diplomat")),
                                           ("c", Slice(P("u16"), "box", "diplomat"))], None)
    m.method("Sl", "strs", "ref", [("a", Str("utf8")), ("b", Str("unval8")), ("c", Str("utf16"))], P("u32"))
    m.method("Sl", "own_strs", None, [("a", Str("utf8", "box")), ("b", Str("unval8", "box")), ("c", Str("utf16", "box"))], None)
    m.method("Sl", "str_slices", None, [("a", StrSlice("unval8")), ("b", StrSlice("utf16"))], None)
    m.method("Sl", "two", None, [("a", Slice(P("u8"), "ref")), ("k", P("u32")), ("b", Slice(P("i16"), "ref")), ("j", P("i8"))], None)
    m.method("Sl", "ret_slice", None, [("x", Slice(P("u16"), "ref"))], Slice(P("u16"), "ref"), ret_from=PassThrough("x", sub=True))
    m.method("Sl", "ret_str", None, [("x", Str("unval8"))], Str("unval8"), ret_from=PassThrough("x", sub=True))
    m.method("Sl", "ret_str16", None, [("x", Str("utf16"))], Str("utf16"), ret_from=PassThrough("x"))
    m.method("Sl", "opt_ret_slice", None, [("x", Slice(P("u32"), "ref"))], Opt(Slice(P("u32"), "ref"), "std"), ret_from=PassThrough("x", sub=True, optional=True))
    m.method("Sl", "opt_ret_str", None, [("x", Str("unval8"))], Opt(Str("unval8"), "std"), ret_from=PassThrough("x", sub=True, optional=True))
    m.method("Sl", "opt_ret_str16", "ref", [("x", Str("utf16"))], Opt(Str("utf16"), "std"), ret_from=PassThrough("x", sub=True, optional=True))
    m.method("Sl", "views", None, [("v", StructT("Views", borrowed=True))], StructT("Views", borrowed=True), ret_from=PassThrough("v"))
    m.add(StructDef("Refs", [("o", OpaqueRef("Sl")), ("n", P("u8")), ("p", OpaqueRef("Sl", optional=True)), ("sl", Slice(P("i32"), "ref", "diplomat"))]))
    m.method("Sl", "refs", None, [("r", StructT("Refs", borrowed=True))], StructT("Refs", borrowed=True), ret_from=PassThrough("r"))
    m.method("Sl", "views2", None, [("v", StructT("Views2", borrowed=True))], StructT("Views2", borrowed=True), ret_from=PassThrough("v"))
    m.method("Sl", "opt_slice", None, [("x", Opt(Slice(P("u8"), "ref"), "std")), ("y", Opt(Str("utf8"), "std"))], Opt(P("u8"), "std"))
    m.method("Sl", "opt_strs8", None, [("a", Opt(StrSlice("unval8"), "std")), ("k", P("u8"))], None)
    m.method("Sl", "opt_strs16", None, [("k", P("u8")), ("b", Opt(StrSlice("utf16"), "std"))], None)
    m.method("Sl", "opt_str16", None, [("a", Opt(Str("utf16"), "std")), ("b", Opt(Str("unval8"), "std"))], P("u8"))
    m.method("Sl", "opt_own", None, [("x", Opt(Slice(P("u8"), "box"), "std")), ("k", P("u8"))], None)
    m.method("Sl", "res_slice", None, [("x", Slice(P("f64"), "ref"))], Res(Slice(P("f64"), "ref"), EnumT("Er")), ret_from=None)
    m.methods.pop()  # results carrying borrowed slices are built from seeds only; not generated (kept simple)
    m.method("Sl", "write_plain", "ref", [("n", P("i32")), ("w", Write())], None)
    m.method("Sl", "write_res", "ref", [("n", P("u8")), ("w", Write())], Res(None, EnumT("Er")))
    m.method("Sl", "write_opt", None, [("k", P("u16")), ("w", Write())], Opt(None))
    m.method("Sl", "write_named", "ref", [("n", P("u8")), ("w", Write(named=True))], None)
    m.method("Sl", "write_named_res", None, [("n", P("u8")), ("w", Write(named=True))], Res(None, EnumT("Er")))
    m.method("Sl", "new", None, [], OpaqueBox("Sl"))
    return m


def m0_callbacks():
    m = Module("m0_callbacks")
    P = Prim
    m.add(OpaqueDef("Cb"))
    m.method("Cb", "cb1", None, [("f", Callback([P("i32")], P("i32")))], P("i32"))
    m.method("Cb", "cb3", "ref", [("f", Callback([P("u8"), P("i64"), P("u16")], P("u64")))], P("u64"))
    m.method("Cb", "cb_void", None, [("f", Callback([P("u32")], None)), ("k", P("u8"))], None)
    m.method("Cb", "cb_float", None, [("f", Callback([P("f64"), P("f32")], P("f64")))], P("f64"))
    m.method("Cb", "cb_bool", None, [("f", Callback([P("bool"), P("i8")], P("bool")))], P("bool"))
    m.add(EnumDef("CbEn", [("Neg", -3), ("Five", 5), ("Big", 70000)]))
    m.add(StructDef("CbSt", [("a", P("u8")), ("b", P("u32")), ("c", P("i16"))]))
    m.method("Cb", "cb_enum", None, [("f", Callback([EnumT("CbEn"), P("u8")], EnumT("CbEn")))], EnumT("CbEn"))
    m.method("Cb", "cb_struct", "ref", [("f", Callback([StructT("CbSt"), EnumT("CbEn")], P("i16")))], P("i16"))
    # borrowed string / slice arguments handed to the foreign callback; the view in the position where the integer
    # argument registers run out (data pointer + 4 integers before it on x86-64) is the interesting one
    m.method("Cb", "cb_str", None, [("f", Callback([P("i32"), Str("utf8")], P("i32")))], P("i32"))
    m.method("Cb", "cb_str_long", "ref", [("f", Callback([P("i32"), P("i32"), P("i32"), P("i32"), Str("utf8")], P("i32")))], P("i32"))
    m.method("Cb", "cb_str16", None, [("f", Callback([P("u8"), Str("utf16"), P("u16")], None))], None)
    m.method("Cb", "cb_bytes", None, [("f", Callback([Str("unval8"), P("u64")], P("u8")))], P("u8"))
    m.method("Cb", "cb_slice", None, [("f", Callback([Slice(P("u32"), "ref"), P("i8")], P("u32")))], P("u32"))
    m.method("Cb", "new", None, [], OpaqueBox("Cb"))
    return m


def m0_results():
    """Result records over many (ok, err) primitive pairs: back ends that cache/naming-mangle their result
    helper types must keep records of different width/kind apart."""
    m = Module("m0_results")
    P = Prim
    m.add(EnumDef("Code", [("Low", -1), ("Mid", None), ("High", 40000)]))
    m.add(OpaqueDef("Rs"))
    oks = [("unit", None), ("u8", P("u8")), ("i64", P("i64")), ("f64", P("f64")), ("en", EnumT("Code"))]
    errs = [("unit", None), ("u8", P("u8")), ("i16", P("i16")), ("u32", P("u32")), ("i64", P("i64")), ("f32", P("f32")), ("f64", P("f64")),
            ("bool", P("bool")), ("en", EnumT("Code")), ("ch", P("DiplomatChar"))]
    for on, o in oks:
        for en, e in errs:
            m.method("Rs", "r_%s_%s" % (on, en), None, [], Res(o, e, "std"))
    for on, o in oks[1:]:
        m.method("Rs", "o_%s" % on, None, [("x", Opt(o, "std"))], Opt(o, "std"))
    # zero-sized (field-less) structs as payload: like unit, they occupy no payload
    m.add(StructDef("Zst", []))
    m.add(StructDef("Zst2", [], out=True))
    m.method("Rs", "z_unit_zst", None, [], Res(None, StructT("Zst"), "std"))
    m.method("Rs", "z_zst_unit", None, [("k", P("u8"))], Res(StructT("Zst"), None, "std"))
    m.method("Rs", "z_zst_zst2", None, [], Res(StructT("Zst"), StructT("Zst2"), "std"))
    m.method("Rs", "z_opt_zst", None, [], Opt(StructT("Zst"), "std"))
    m.method("Rs", "z_zst_u8", None, [], Res(StructT("Zst"), P("u8"), "std"))
    m.method("Rs", "z_i32_zst", None, [], Res(P("i32"), StructT("Zst"), "std"))
    m.method("Rs", "new", None, [], OpaqueBox("Rs"))
    return m


def m0_attrs():
    """Backend-conditional `disable` on *types* that enabled methods and structs still use.  The tool is expected to
    refuse such uses ("Found usage of disabled type"); whatever it does accept must still agree with the macro's ABI."""
    m = Module("m0_attrs")
    P = Prim
    m.add(OpaqueDef("At"))
    m.add(EnumDef("HidEn", [("P", None), ("Q", 5)], disabled_in=("c",)))
    m.add(StructDef("Hid", [("a", P("u64")), ("b", P("u64"))], disabled_in=("c",)))
    m.add(StructDef("OuterH", [("a", P("u8")), ("h", StructT("Hid")), ("b", P("u64"))]))
    m.add(StructDef("Vis", [("a", P("u8")), ("b", P("u32"))]))
    m.method("At", "res_hid", "ref", [], Res(StructT("Hid"), P("u8")))
    m.method("At", "opt_hid", None, [("k", P("u8"))], Opt(StructT("Hid")))
    m.method("At", "res_err_hid", None, [], Res(P("u8"), StructT("Hid")))
    m.method("At", "plain_hid", None, [], StructT("Hid"))
    m.method("At", "take_hid", "ref", [("h", StructT("Hid"))], P("u64"))
    m.method("At", "outer", None, [("o", StructT("OuterH"))], StructT("OuterH"))
    m.method("At", "opt_en", None, [], Opt(EnumT("HidEn")))
    m.method("At", "res_en", None, [("k", P("i16"))], Res(P("u8"), EnumT("HidEn")))
    m.method("At", "take_en", None, [("e", EnumT("HidEn"))], P("u8"))
    m.method("At", "vis", None, [("v", StructT("Vis"))], StructT("Vis"))
    m.method("At", "new", None, [], OpaqueBox("At"))
    return m


M0 = [m0_core, m0_slices, m0_callbacks, m0_results, m0_attrs]


# ------------------------------------------------------------------------------------------------
# Mr(seed): random modules from the grammar
# ------------------------------------------------------------------------------------------------

def random_module(seed, idx):
    rnd = random.Random(seed * 1000 + idx)
    m = Module("mr_%d_%d" % (seed, idx))
    P = Prim
    enums, structs = [], []
    for i in range(rnd.randint(1, 2)):
        n = rnd.randint(1, 8)
        variants = []
        used = set()
        last = -1
        for k in range(n):
            if rnd.random() < 0.5:
                d = rnd.choice([rnd.randint(-50, 50), rnd.randint(-2**31, 2**31 - 1), -2**31, 0, 1, 2**31 - 1 - n])
                cur = d
                exp = d
            else:
                cur = last + 1
                exp = None
            if cur in used or cur > 2**31 - 1 or cur < -2**31:
                # fall back to a fresh explicit value
                cur = max(used | {0}) + 1
                exp = cur
                if cur > 2**31 - 1:
                    break
            used.add(cur)
            last = cur
            variants.append(("V%d" % k, exp))
        e = m.add(EnumDef("E%d" % i, variants))
        enums.append(e)
    m.add(OpaqueDef("Ob"))
    scalar = lambda: rnd.choice([P(rnd.choice(ALL_PRIMS)), P(rnd.choice(ALL_PRIMS)), EnumT(rnd.choice(enums).name)])
    for i in range(rnd.randint(1, 3)):
        fields = []
        for k in range(rnd.randint(1, 5)):
            r = rnd.random()
            if r < 0.6 or not structs:
                t = scalar()
            elif r < 0.75:
                t = StructT(rnd.choice(structs).name)
            else:
                inner = scalar() if rnd.random() < 0.7 else StructT(rnd.choice(structs).name)
                t = Opt(inner, "diplomat")
            fields.append(("f%d" % k, t))
        structs.append(m.add(StructDef("S%d" % i, fields)))
    nonborrow = structs
    outfields = [("o%d" % k, scalar()) for k in range(rnd.randint(1, 3))]
    if rnd.random() < 0.5:
        outfields.insert(rnd.randint(0, len(outfields)), ("bx", OpaqueBox("Ob", optional=rnd.random() < 0.5)))
    m.add(StructDef("OutR", outfields, out=True))
    def val():
        r = rnd.random()
        if r < 0.45:
            return scalar()
        if r < 0.8:
            return StructT(rnd.choice(nonborrow).name)
        return Opt(scalar() if rnd.random() < 0.6 else StructT(rnd.choice(nonborrow).name), rnd.choice(["std", "diplomat"]))
    def param():
        r = rnd.random()
        if r < 0.6:
            return val()
        if r < 0.7:
            return OpaqueRef("Ob", mut=rnd.random() < 0.3, optional=rnd.random() < 0.4)
        if r < 0.85:
            return Slice(P(rnd.choice(ALL_PRIMS)), rnd.choice(["ref", "mut", "box"]), rnd.choice(["std", "diplomat"]))
        return Str(rnd.choice(["utf8", "unval8", "utf16"]), rnd.choice(["ref", "box"]))
    def ret():
        r = rnd.random()
        if r < 0.1:
            return None
        if r < 0.45:
            return val()
        if r < 0.5:
            return StructT("OutR")
        if r < 0.6:
            return OpaqueBox("Ob", optional=rnd.random() < 0.5)
        if r < 0.65:
            return Ordering()
        o = None if rnd.random() < 0.2 else (val() if rnd.random() < 0.7 else (OpaqueBox("Ob") if rnd.random() < 0.5 else StructT("OutR")))
        e = None if rnd.random() < 0.3 else (val() if rnd.random() < 0.8 else StructT("OutR"))
        if isinstance(o, Opt):
            o = o.inner
        if isinstance(e, Opt):
            e = e.inner
        return Res(o, e, rnd.choice(["std", "diplomat"]))
    def leaves(t):
        return t.nleaves(m) if (t is not None and hasattr(t, "nleaves")) else 0
    for i in range(rnd.randint(5, 8)):
        ps = [("p%d" % k, param()) for k in range(rnd.randint(0, 4))]
        while sum(leaves(t) for _, t in ps) > 40:      # keep within the observation log / seed capacity
            ps.pop()
        sk = rnd.choice([None, "ref", "ref", "mut"])
        r = ret()
        for _ in range(20):
            if leaves(r) <= 36:
                break
            r = ret()
        else:
            r = None
        m.method("Ob", "m%d" % i, sk, ps, r)
    m.method("Ob", "new", None, [("tag", P("u32"))], OpaqueBox("Ob"))
    return m


# ------------------------------------------------------------------------------------------------
# profile fitting: drop what a back end's feature profile rejects
# ------------------------------------------------------------------------------------------------

def type_mentions(t, names):
    if t is None:
        return False
    if isinstance(t, (EnumT, StructT, OpaqueRef, OpaqueBox)):
        return t.name in names
    if isinstance(t, Opt):
        return type_mentions(t.inner, names)
    if isinstance(t, Res):
        return type_mentions(t.ok, names) or type_mentions(t.err, names)
    if isinstance(t, Callback):
        return any(type_mentions(p, names) for p in t.params) or type_mentions(t.ret, names)
    return False


def any_type(t, pred):
    """does `pred` hold for t or any type nested inside it"""
    if t is None:
        return False
    if pred(t):
        return True
    if isinstance(t, Opt):
        return any_type(t.inner, pred)
    if isinstance(t, Res):
        return any_type(t.ok, pred) or any_type(t.err, pred)
    return False


def filtered(mod, drop_methods=(), drop_types=(), method_pred=None, suffix=""):
    """A copy of `mod` without the given methods [(owner, name)] / types (and everything mentioning them)."""
    drop_types = set(drop_types)
    changed = True
    while changed:
        changed = False
        for d in mod.order:
            if isinstance(d, StructDef) and d.name not in drop_types and any(type_mentions(t, drop_types) for _, t in d.fields):
                drop_types.add(d.name)
                changed = True
    out = Module(mod.name + suffix)
    for d in mod.order:
        if d.name not in drop_types:
            out.add(d)
    for m in mod.methods:
        if (m.owner, m.name) in set(drop_methods) or m.owner in drop_types:
            continue
        if any(type_mentions(t, drop_types) for _, t in m.params) or type_mentions(m.ret, drop_types):
            continue
        if method_pred is not None and not method_pred(m):
            continue
        out.methods.append(m)
    return out


def m0_js():
    """Struct shapes for the JS back end (C08): padding patterns, nested structs (incl. single-field
    'newtype' structs at non-zero offsets, 2-scalar structs inside 3-scalar structs), enums, pointer-sized
    integers, optional fields.  Every struct is taken and returned by value."""
    m = Module("m0_js")
    P = Prim
    m.add(EnumDef("Je", [("A", -3), ("B", 5), ("C", 1000000)]))
    m.add(StructDef("JPad", [("a", P("u8")), ("b", P("u64")), ("c", P("i16")), ("d", P("u32")), ("e", P("bool"))]))
    m.add(StructDef("JRev", [("e", P("bool")), ("d", P("u32")), ("c", P("i16")), ("b", P("u64")), ("a", P("u8"))]))
    m.add(StructDef("JMixed", [("f", P("f32")), ("en", EnumT("Je")), ("g", P("f64")), ("ch", P("DiplomatChar")), ("by", P("DiplomatByte")),
                               ("sz", P("usize")), ("isz", P("isize")), ("h", P("i8")), ("w", P("u16")), ("l", P("i64"))]))
    m.add(StructDef("JInner", [("x", P("i8")), ("y", P("i32"))]))
    m.add(StructDef("JOuter", [("p", P("u8")), ("inner", StructT("JInner")), ("q", P("u16")), ("s", EnumT("Je"))]))
    m.add(StructDef("JPair", [("first", P("u8")), ("second", P("u32"))]))
    m.add(StructDef("JTriple", [("pair", StructT("JPair")), ("third", P("u8"))]))
    m.add(StructDef("JTripleRev", [("third", P("u8")), ("pair", StructT("JPair"))]))
    m.add(StructDef("JCelsius", [("t", P("i16"))]))
    m.add(StructDef("JMeters", [("m", P("f64"))]))
    m.add(StructDef("JReading", [("id", P("u32")), ("temp", StructT("JCelsius")), ("height", StructT("JMeters"))]))
    m.add(StructDef("JQuad", [("a", P("u8")), ("b", P("u16")), ("c", P("u32")), ("d", P("u64"))]))
    m.add(StructDef("JTwo", [("a", P("u8")), ("b", P("u64"))]))
    m.add(StructDef("JBig", [("a", P("u8")), ("b", P("u16")), ("c", P("u64"))]))
    m.add(StructDef("JDeep", [("x", P("u8")), ("o", StructT("JOuter")), ("y", P("u16"))]))
    m.add(StructDef("JShortPair", [("a", P("u16")), ("b", P("u8"))]))
    m.add(StructDef("JAfterShort", [("sp", StructT("JShortPair")), ("z", P("u64"))]))
    m.add(StructDef("JOpt", [("a", Opt(P("u8"), "diplomat")), ("b", Opt(P("i64"), "diplomat")), ("c", Opt(EnumT("Je"), "diplomat")),
                             ("d", Opt(StructT("JInner"), "diplomat")), ("e", P("u8"))]))
    # a struct holding a union (DiplomatOption) is passed "padded direct": the padding of 2-scalar structs nested in it counts too
    m.add(StructDef("JTail", [("w", P("isize")), ("h", P("i16"))]))
    m.add(StructDef("JOptTail", [("o", Opt(P("i64"), "diplomat")), ("k", P("i8")), ("t", StructT("JTail")), ("q", Opt(P("i32"), "diplomat")), ("e", EnumT("Je"))]))
    m.add(StructDef("JOptPair", [("o", Opt(P("u8"), "diplomat")), ("p", StructT("JPair")), ("z", P("u8"))]))
    # slices and strings as struct fields: {ptr, len} in the image, elements in a separately allocated buffer
    m.add(StructDef("JSlices", [("n", P("u8")), ("a", Slice(P("u16"), "ref", "diplomat")), ("s", Str("utf8", "ref", "diplomat")), ("k", P("u32")),
                                ("w", Str("utf16", "ref", "diplomat")), ("b", Slice(P("f64"), "ref", "diplomat")), ("z", P("i16"))]))
    m.add(StructDef("JBytes", [("d", Slice(P("u8"), "ref", "diplomat")), ("t", P("u64")), ("i", Slice(P("i32"), "ref", "diplomat"))]))
    m.add(OpaqueDef("Js"))
    m.add(StructDef("JRefs", [("o", OpaqueRef("Js")), ("n", P("u8")), ("p", OpaqueRef("Js", optional=True)), ("k", P("u16"))]))
    for sd in list(m.structs.values()):
        if sd.borrowed:
            m.method("Js", "rt_%s" % sd.name.lower(), None, [("s", StructT(sd.name, borrowed=True))], StructT(sd.name, borrowed=True), ret_from=PassThrough("s"))
        else:
            m.method("Js", "rt_%s" % sd.name.lower(), None, [("s", StructT(sd.name))], StructT(sd.name))
    # fallible / optional returns: the receive buffer must fit the DiplomatResult record (payload union + is_ok)
    m.add(StructDef("JTri", [("a", P("i32")), ("b", P("i32")), ("c", P("i32"))]))
    m.method("Js", "rt_jtri", None, [("s", StructT("JTri"))], StructT("JTri"))
    m.method("Js", "res_u64_tri", None, [], Res(P("u64"), StructT("JTri")))
    m.method("Js", "res_unit_inner", None, [], Res(None, StructT("JInner")))
    m.method("Js", "res_u8_pad", None, [], Res(P("u8"), StructT("JPad")))
    m.method("Js", "res_pad_unit", None, [], Res(StructT("JPad"), None))
    m.method("Js", "res_pair_inner", None, [], Res(StructT("JPair"), StructT("JInner")))
    m.method("Js", "res_unit_en", None, [], Res(None, EnumT("Je")))
    m.method("Js", "res_quad_en", None, [], Res(StructT("JQuad"), EnumT("Je")))
    m.method("Js", "opt_pad", None, [], Opt(StructT("JPad")))
    m.method("Js", "opt_u64", None, [], Opt(P("u64")))
    m.method("Js", "opt_celsius", None, [], Opt(StructT("JCelsius")))
    m.method("Js", "new", None, [], OpaqueBox("Js"))
    return m


def js_random_module(seed, idx):
    """random structs (primitive / enum / nested / optional fields) taken and returned by value, for the JS back end"""
    base = random_module(seed, idx)
    m = Module("mjs_%d_%d" % (seed, idx))
    for d in base.order:
        if isinstance(d, EnumDef):
            m.add(d)
    for d in base.order:
        if isinstance(d, StructDef) and not d.out:
            m.add(d)
    m.add(OpaqueDef("Js"))
    for sd in list(m.structs.values()):
        m.method("Js", "rt_%s" % sd.name.lower(), None, [("s", StructT(sd.name))], StructT(sd.name))
    m.method("Js", "new", None, [], OpaqueBox("Js"))
    return m
