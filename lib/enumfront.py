"""C11 front ends: the enum tables each back end emits, as (forward, reverse) maps.

forward[name]  = the integer the binding hands to Rust for the variant called `name`
reverse[value] = the name of the variant the binding selects when Rust hands it `value`

Dart / Kotlin / C++ / nanobind tables are read from the emitted text (regular template output);
the JS table is obtained by loading the emitted ES module under node with a stub wasm object and
asking the class itself (node is the JavaScript front end here, exactly as goto-cc is the C one).
The comparison with rustc's discriminants is done afterwards by Kani with a symbolic variant index.
"""
import json
import os
import re
import subprocess


def norm(s):
    return re.sub(r"[^a-z0-9]", "", s.lower())


class Tables:
    def __init__(self):
        self.fwd = {}     # enum -> {norm(variant) -> int}
        self.rev = {}     # enum -> {int -> norm(variant)}
        self.problems = []
        self.notes = {}


def dart_tables(outdir, enums):
    t = Tables()
    texts = {f: open(os.path.join(outdir, f)).read() for f in os.listdir(outdir) if f.endswith(".dart")}
    alltxt = "\n".join(texts.values())
    for e in enums:
        m = re.search(r"\nenum %s \{(.*?)\n\}" % re.escape(e), alltxt, flags=re.S)
        if not m:
            t.problems.append("dart: enum %s not found" % e)
            continue
        body = m.group(1)
        head = body.split(";")[0]
        head = re.sub(r"///[^\n]*", "", head)
        variants = [v.strip() for v in head.split(",") if v.strip()]
        fm = re.search(r"int get _ffi \{\s*switch \(this\) \{(.*?)\n    \}", body, flags=re.S)
        if fm:
            pairs = re.findall(r"case (\w+):\s*return (-?\d+);", fm.group(1))
            fwd = {norm(n): int(v) for n, v in pairs}
            if len(pairs) != len(variants):
                t.problems.append("dart: enum %s has %d variants but %d _ffi cases" % (e, len(variants), len(pairs)))
            mode = "explicit"
        elif "_ffi" in body:
            t.problems.append("dart: unrecognised _ffi getter in enum %s" % e)
            continue
        else:
            fwd = {norm(n): i for i, n in enumerate(variants)}     # contiguous fast path: the Dart `index`
            mode = "index"
        idx_rev = re.search(r"\b%s\.values\[" % re.escape(e), alltxt) is not None
        fw_rev = re.search(r"\b%s\.values\.firstWhere\(\(v\) => v\._ffi ==" % re.escape(e), alltxt) is not None
        if idx_rev and not fw_rev:
            rev = {i: norm(n) for i, n in enumerate(variants)}
        else:
            rev = {}
            for n in variants:       # firstWhere: first variant in declaration order whose _ffi equals the value
                v = fwd.get(norm(n))
                if v is not None and v not in rev:
                    rev[v] = norm(n)
        # use sites: what a method receiver (`self`) and an enum-typed argument are converted with before the native call.
        # `index` is the declaration position; it equals the discriminant only for enums numbered 0, 1, 2, ...
        pos = {norm(n): i for i, n in enumerate(variants)}
        sites = []
        for cm_ in re.finditer(r"\b(_%s_\w+)\(([^;{}]*?)\);" % re.escape(e), body):
            args = [a.strip() for a in cm_.group(2).split(",")]
            if args and args[0] in ("index", "_ffi"):
                sites.append((cm_.group(1) + " (receiver)", args[0]))
        for cm_ in re.finditer(r"\b(_\w+_rt_%s)\(([^;{}]*?)\);" % re.escape(e.lower()), alltxt):
            for a in [a.strip() for a in cm_.group(2).split(",")]:
                am = re.fullmatch(r"\w+\.(index|_ffi)", a)
                if am:
                    sites.append((cm_.group(1) + " (argument)", am.group(1)))
        for where, how in sites:
            if how == "index":
                for n_, v_ in list(fwd.items()):
                    if isinstance(v_, int) and pos.get(n_) != v_:
                        fwd[n_] = "%s passes `index` (= %d for this variant) to Rust, the enum's _ffi value is %d" % (where, pos.get(n_, -1), v_)
        t.notes[e] = "dart use sites: %r" % (sites,)
        t.fwd[e], t.rev[e] = fwd, rev
        t.notes[e] = t.notes.get(e, "") + "; dart %s forward, %s reverse" % (mode, "index" if (idx_rev and not fw_rev) else "firstWhere")
    return t


def kotlin_tables(outdir, enums):
    t = Tables()
    alltxt = ""
    for root, _, files in os.walk(outdir):
        for f in files:
            if f.endswith(".kt"):
                alltxt += open(os.path.join(root, f)).read() + "\n"
    for e in enums:
        m = re.search(r"enum class %s\(val inner: Int\) \{(.*?);\n" % re.escape(e), alltxt, flags=re.S)
        if m:
            fwd = {norm(n): int(v) for n, v in re.findall(r"(\w+)\((-?\d+)\)", m.group(1))}
            tn = re.search(r"enum class %s\(.*?fun toNative\(\): Int \{\s*return this\.inner\s*\}" % re.escape(e), alltxt, flags=re.S)
            if not tn:
                t.problems.append("kotlin: unrecognised toNative() in %s" % e)
            rm = re.search(r"enum class %s\(.*?fun fromNative\(native: Int\): %s \{\s*return when \(native\) \{(.*?)else ->" % (re.escape(e), re.escape(e)), alltxt, flags=re.S)
            if not rm:
                t.problems.append("kotlin: unrecognised fromNative() in %s" % e)
                continue
            rev = {}
            for v, n in re.findall(r"(-?\d+) -> (\w+)", rm.group(1)):
                if int(v) not in rev:
                    rev[int(v)] = norm(n)
            t.fwd[e], t.rev[e] = fwd, rev
            t.notes[e] = "kotlin explicit"
            continue
        # contiguous fast path: ordinal / entries[native]
        m = re.search(r"enum class %s \{(.*?);\n(.*?)\n\}" % re.escape(e), alltxt, flags=re.S)
        if not m:
            t.problems.append("kotlin: enum class %s not found" % e)
            continue
        variants = [v.strip() for v in re.sub(r"//[^\n]*", "", m.group(1)).split(",") if v.strip()]
        rest = m.group(2)
        if not re.search(r"fun toNative\(\): Int \{\s*return this\.ordinal\s*\}", rest) or \
           not re.search(r"fun fromNative\(native: Int\): %s \{\s*return %s\.entries\[native\]" % (re.escape(e), re.escape(e)), rest):
            t.problems.append("kotlin: unrecognised ordinal-based enum %s" % e)
            continue
        t.fwd[e] = {norm(n): i for i, n in enumerate(variants)}
        t.rev[e] = {i: norm(n) for i, n in enumerate(variants)}
        t.notes[e] = "kotlin ordinal"
    return t


def cpp_tables(outdir, enums):
    t = Tables()
    for e in enums:
        p = os.path.join(outdir, "%s.d.hpp" % e)
        p2 = os.path.join(outdir, "%s.hpp" % e)
        if not os.path.exists(p) or not os.path.exists(p2):
            t.problems.append("cpp: %s.d.hpp / %s.hpp not found" % (e, e))
            continue
        d, h = open(p).read(), open(p2).read()
        vm = re.search(r"class %s \{\s*public:\s*enum Value \{(.*?)\};" % re.escape(e), d, flags=re.S)
        cm = re.search(r"enum %s \{(.*?)\};" % re.escape(e), d, flags=re.S)
        if not vm or not cm:
            t.problems.append("cpp: unrecognised enum declaration for %s" % e)
            continue
        val = {n: int(v) for n, v in re.findall(r"(\w+) = (-?\d+),", vm.group(1))}
        capi = {n: int(v) for n, v in re.findall(r"(\w+) = (-?\d+),", cm.group(1))}
        if not re.search(r"%s::AsFFI\(\) const \{\s*return static_cast<diplomat::capi::%s>\(value\);" % (re.escape(e), re.escape(e)), h):
            t.problems.append("cpp: unrecognised AsFFI() for %s" % e)
        fm = re.search(r"%s::FromFFI\(diplomat::capi::%s c_enum\) \{\s*switch \(c_enum\) \{(.*?)return static_cast<%s::Value>\(c_enum\);" % (re.escape(e), re.escape(e), re.escape(e)), h, flags=re.S)
        if not fm:
            t.problems.append("cpp: unrecognised FromFFI() for %s" % e)
            continue
        accepted = {capi[c] for c in re.findall(r"case diplomat::capi::(\w+):", fm.group(1)) if c in capi}
        fwd = {norm(n): v for n, v in val.items()}
        rev = {}
        for n, v in val.items():
            if v in accepted and v not in rev:
                rev[v] = norm(n)
        t.fwd[e], t.rev[e] = fwd, rev
        t.notes[e] = "cpp capi constants %s" % capi
    return t


def nanobind_tables(outdir, enums, cpp):
    """nanobind registers .value("Name", Cpp::Name): the number is the C++ constant's."""
    t = Tables()
    alltxt = ""
    for root, _, files in os.walk(outdir):
        for f in files:
            if f.endswith((".cpp", ".hpp", ".h")):
                alltxt += open(os.path.join(root, f)).read() + "\n"
    for e in enums:
        pairs = re.findall(r'\.value\("(\w+)",\s*%s::(\w+)\)' % re.escape(e), alltxt)
        if not pairs:
            t.problems.append("nanobind: no .value(..) registrations found for %s" % e)
            continue
        cf = cpp.fwd.get(e, {})
        fwd, rev = {}, {}
        for pyname, cname in pairs:
            if norm(cname) not in cf:
                t.problems.append("nanobind: %s::%s is not a C++ enumerator" % (e, cname))
                continue
            fwd[norm(pyname)] = cf[norm(cname)]
            rev.setdefault(cf[norm(cname)], norm(pyname))
        t.fwd[e], t.rev[e] = fwd, rev
    return t


NODE_SCRIPT = r"""
import * as rt from "./diplomat-runtime.mjs";
const out = {};
for (const name of JSON.parse(process.argv[2])) {
  const mod = await import("./" + name + ".mjs");
  const C = mod[name];
  const fwd = {}, rev = {}, byname = {};
  for (const key of Object.getOwnPropertyNames(C)) {
    const v = C[key];
    if (v instanceof C) { fwd[key] = v.ffiValue; }
  }
  for (const [k, v] of C.getAllEntries()) {
    let viaName = null;
    try { viaName = new C(k).ffiValue; } catch (e) { viaName = "throws"; }
    byname[k] = viaName;
  }
  for (const val of JSON.parse(process.argv[3])[name]) {
    let r = null;
    try { const o = new C(rt.internalConstructor, val); r = (o === undefined || o === null) ? null : o.value; } catch (e) { r = "throws"; }
    rev[val] = r === undefined ? null : r;
  }
  out[name] = {fwd, rev, byname};
}
console.log(JSON.stringify(out));
"""


def js_tables(outdir, enums, rust_values):
    """rust_values: {enum: [discriminants]} - the values Rust can hand out (needed to query the reverse map)"""
    t = Tables()
    with open(os.path.join(outdir, "diplomat-wasm.mjs"), "w") as fh:
        fh.write("// stub written by /verif/lib/enumfront.py: enum modules never touch wasm at load time\nexport default {};\n")
    with open(os.path.join(outdir, "verif_dump_enums.mjs"), "w") as fh:
        fh.write(NODE_SCRIPT)
    try:
        p = subprocess.run(["node", "verif_dump_enums.mjs", json.dumps(enums), json.dumps(rust_values)], cwd=outdir,
                           stdout=subprocess.PIPE, stderr=subprocess.PIPE, text=True, timeout=120)
    except Exception as ex:
        t.problems.append("js: node failed: %r" % ex)
        return t
    if p.returncode != 0:
        t.problems.append("js: node exited %d: %s" % (p.returncode, p.stderr[-500:]))
        return t
    data = json.loads(p.stdout.strip().split("\n")[-1])
    for e in enums:
        d = data.get(e)
        if not d:
            t.problems.append("js: no data for %s" % e)
            continue
        fwd = {}
        for n, v in d["fwd"].items():
            fwd[norm(n)] = v
        # constructing by name must agree with the static member of the same name
        for n, v in d["byname"].items():
            if fwd.get(norm(n)) != v:
                fwd[norm(n)] = ("by-name construction gives %r, static member %r" % (v, fwd.get(norm(n))))
        rev = {}
        for v, n in d["rev"].items():
            rev[int(v)] = norm(n) if isinstance(n, str) and n != "throws" else None
        t.fwd[e], t.rev[e] = fwd, rev
    return t
