"""Per-property composition of engines, verdict classification, replay, evidence."""
import os
import time
from vlib import *
import engine_e1

PROPS = {
    "C16": {"parts": ["e1"], "level": "model_checking"},
    "C03": {"parts": ["e1", "e2"], "level": "model_checking"},
    "C10": {"parts": ["e1", "e2"], "level": "model_checking"},
    "C12": {"parts": ["e1", "e2"], "level": "model_checking"},
    "C08": {"parts": ["e1", "e2"], "level": "model_checking"},
    "C01": {"parts": ["e1", "e2"], "level": "translation_validation"},
    "C07": {"parts": ["e2"], "level": "translation_validation"},
    "C11": {"parts": ["e2"], "level": "translation_validation"},
}


E2_BOUNDS = {
    "*": {"quick": "program family: M0 (m0_core, m0_slices, m0_callbacks, m0_results) + 2 random modules for VERIF_SEED; all argument/return values symbolic; slices and strings <= 3 elements, "
                   "string-slice lists <= 2x2; call histories of 3 steps over 2 handles; unwind = leaf count + 3",
          "thorough": "program family: M0 + 24 random modules for VERIF_SEED; call histories of 4 steps; otherwise as quick"},
    "C07": {"quick": "program family: M0 without callbacks + 1 random module, each fitted to the Dart and to the Kotlin profile; values as for C01",
            "thorough": "program family: M0 without callbacks + 24 random modules, each fitted to the Dart and to the Kotlin profile"},
    "C11": {"quick": "C header: every enum of M0 + 2 random modules; tables of Dart, Kotlin, C++, nanobind, JS: the family's enums + 12 adversarial patterns; variant index symbolic; 1..8 variants within i32",
            "thorough": "as quick with 24 random modules"},
    "C08": {"quick": "emitted JS: module m0_js (21 struct shapes + fallible/optional returns) and 2 (thorough: 8) seeded random struct modules, js.abi=legacy and spec; reference layout vs rustc: all structs of m0_js",
            "thorough": "same as quick"},
}


def run_property(prop):
    t0 = time.time()
    spec = PROPS[prop]
    replay_dir = os.path.join(VERIF, "replays", prop)
    shutil.rmtree(replay_dir, ignore_errors=True)
    all_results = []
    inconclusive = []
    crate_of = {}
    tools = {}
    extra_cov = {}
    violations = []        # (harness, replay_path, description)
    known_hits = []
    if "e1" in spec["parts"]:
        o = engine_e1.run(prop)
        all_results += o["results"]
        inconclusive += o["inconclusive"]
        violations += o.get("violations", [])
        crate_of.update(o["crate_of"])
        tools = o["tools"] or tools
    for part in spec["parts"]:
        if part == "e1":
            continue
        mod = __import__("engine_" + part)
        o = mod.run(prop)
        all_results += o.get("results", [])
        inconclusive += o.get("inconclusive", [])
        crate_of.update(o.get("crate_of", {}))
        violations += o.get("violations", [])
        known_hits += o.get("known", [])
        for k, v in o.get("coverage", {}).items():
            extra_cov[k] = v

    feats = ["thorough"] if tier() == "thorough" else None
    passed = []
    to_replay = []
    for r in all_results:
        v, why = r.verdict()
        if v == "pass":
            passed.append(r)
        elif v == "inconclusive":
            inconclusive.append("%s: %s" % (r.name, why))
        else:
            to_replay.append(r)

    MAX_REPLAYS = 6
    # cheapest counterexamples first; the rest is listed but not replayed (and so not reported as VIOLATION)
    to_replay.sort(key=lambda r: r.duration_s)
    not_replayed = to_replay[MAX_REPLAYS:]
    to_replay = to_replay[:MAX_REPLAYS]

    def do_replay(r):
        desc = "; ".join(sorted(set("%s [%s]" % (c["description"], c["function"]) for c in r.failed_checks)))[:600]
        log("counterexample in %s: %s -- replaying natively" % (r.name, desc))
        replayer = getattr(r, "replayer", None)
        if replayer is not None:
            rep = replayer(r, replay_dir)
        else:
            rep = kani_replay(crate_of.get(r.name), r.name, features=getattr(r, "features", feats), keep_dir=replay_dir)
        return r, desc, rep

    from concurrent.futures import ThreadPoolExecutor
    # replays run in batches of three; once a batch has reproduced a counterexample that is not a listed known
    # finding the verdict (exit 1) is settled, so the remaining counterexamples are listed but not replayed
    # (a change that breaks many harnesses at once otherwise turns a 2-minute check into a 15-minute one)
    replayed = []
    pending = list(to_replay)
    while pending:
        batch, pending = pending[:3], pending[3:]
        with ThreadPoolExecutor(max_workers=3) as ex:
            done = list(ex.map(do_replay, batch))
        replayed += done
        if any(rep["reproduced"] and not match_known(prop, r.name, r.failed_checks) for r, _d, rep in done):
            not_replayed = pending + not_replayed
            pending = []
    for r, desc, rep in replayed:
        path = rep.get("path") or os.path.join(replay_dir, "%s.playback.txt" % r.name.replace("::", "__"))
        if not rep["reproduced"]:
            inconclusive.append("%s: counterexample did not reproduce natively (%s); see %s" % (r.name, rep["how"], path))
            continue
        k = match_known(prop, r.name, r.failed_checks)
        if k:
            known_hits.append((r.name, k))
        else:
            violations.append((r.name, path, desc + " | " + rep["how"]))
    for r in not_replayed:
        msg = "%s: further counterexample, not replayed (replay budget %d)" % (r.name, MAX_REPLAYS)
        if violations:
            log("note: " + msg)
        else:
            inconclusive.append(msg)

    # ---- evidence -----------------------------------------------------------------------------
    agg = summarize_kani(all_results)
    samples = []
    for r in sorted(all_results, key=lambda r: r.name)[:400]:
        samples.append(r.to_json())
    bounds = engine_e1.BOUNDS.get(prop, {}).get(tier(), "") if "e1" in spec["parts"] else ""
    if "e2" in spec["parts"]:
        bounds = (bounds + " || " if bounds else "") + E2_BOUNDS.get(prop, E2_BOUNDS["*"]).get(tier(), "")
    coverage = {
        "states": max(1, agg["vccs_generated"]),
        "transitions": max(1, agg["ssa_steps"]),
        "traces_validated_against_impl": agg["covers_satisfied"] + len(violations) + len(known_hits),
        "explanation": "states = verification conditions generated by CBMC's symbolic execution of the compiled /repo code, "
                       "summed over harnesses; transitions = SSA program steps; traces_validated_against_impl = solver-produced "
                       "concrete executions of the real code (satisfied reachability covers = vacuity witnesses, plus natively replayed counterexamples)",
        "obligations": len(all_results),
        "discharged": len(passed),
        "harnesses": len(all_results),
        "cbmc_checks_decided": agg["cbmc_checks"],
        "vacuity_covers": "%d/%d satisfied" % (agg["covers_satisfied"], agg["covers_total"]),
        "solver_s": agg["solver_s"],
        "symex_s": agg["symex_s"],
        "functions_encoded": agg["functions"],
        "bounds": bounds,
        "tools": tools,
        "repo_fingerprint": repo_fingerprint(),
        "inconclusive": inconclusive,
        "known_findings_hit": [k[1].get("what", "") for k in known_hits],
        "violations_detail": [{"harness": v[0], "replay": v[1], "what": v[2]} for v in violations],
        "samples": samples or [{"note": "no harness ran"}],
        "exhaustive": False,
    }
    coverage.update(extra_cov)
    assumptions = ["Kani 0.68 / CBMC 6.11 memory model (x86_64-unknown-linux-gnu, 64-bit pointers), CaDiCaL verdicts trusted",
                   "bounds stated in coverage.bounds; nothing is claimed beyond them (unwinding assertions are on, so a too-small unwind bound fails instead of truncating)"]
    if "e1" in spec["parts"]:
        assumptions += list(engine_e1.ASSUMPTIONS)[1:3] + engine_e1.PER_PROP_ASSUMPTIONS.get(prop, [])
    assumptions += extra_cov.pop("extra_assumptions", [])
    write_evidence(prop, spec["level"], coverage, assumptions, time.time() - t0, len(violations))

    # ---- verdict ------------------------------------------------------------------------------
    for name, k in known_hits:
        log("KNOWN-FINDING: property=%s %s (harness %s)" % (prop, k.get("what", ""), name))
    for name, path, desc in violations:
        log("VIOLATION property=%s replay=%s" % (prop, path))
        log("  harness %s: %s" % (name, desc))
    log("%s: %d harnesses, %d passed, %d violation(s), %d known, %d inconclusive; %.0fs (solver %.1fs)" % (
        prop, len(all_results), len(passed), len(violations), len(known_hits), len(inconclusive),
        time.time() - t0, agg["solver_s"]))
    if violations:
        return 1
    if inconclusive or not all_results:
        for i in inconclusive:
            log("INCONCLUSIVE: %s" % i)
        if not all_results:
            log("INCONCLUSIVE: no harness produced a verdict")
        return 2
    return 0
