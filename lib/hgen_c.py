"""E3 harness generation: joint walk of the module IR (what the Rust API promises, i.e. the
documented contract) and the C model (what the generated headers declare, as CBMC's C front end
sees them).  Roles and preconditions come from the IR; every width, signedness, member name,
member order and union shape comes from the header.  A structural disagreement found while
walking is a *static* finding; everything else becomes Kani assertions over symbolic values.
"""
import re
from bridgegen import *  # noqa
from cfront import CType

import os as _os
SLICE_N = 4 if _os.environ.get("VERIF_TIER") == "thorough" else 3


class Mismatch(Exception):
    pass


class Unsupported(Exception):
    """the harness generator does not handle this shape for this dialect (skipped, never an alarm)"""


def dia(cm, key):
    d = getattr(cm, "dialect", None) or {}
    return d.get(key, {"name": "c", "mod": "m", "flag": "is_ok", "slice": ("data", "len"), "prefix": "c01", "tags": None}[key])


class Ctx:
    def __init__(self, mod, cm, prefix="C"):
        self.mod, self.cm = mod, cm
        self.n = 0
        self.names = {}
        self.enums_used = set()
        self.support = []

    def fresh(self, base):
        self.n += 1
        return "%s_%d" % (re.sub(r"\W", "_", base), self.n)


# ---- mirror types ---------------------------------------------------------------------------------

def mname_tag(cm, tag, names):
    if tag in names:
        return names[tag]
    base = tag[4:] if tag.startswith("tag-") else tag
    if re.fullmatch(r"\w+", base):
        nm = base
    else:
        nm = "Anon%d" % (len([1 for v in names.values() if v.startswith("Anon")]))
    names[tag] = nm
    return nm


def mtype(cm, t, names):
    if t.kind == "int":
        w = t.width
        signed = t.signed and not getattr(t, "is_plain_char", False)
        return "%s%d" % ("i" if signed else "u", w)
    if t.kind == "float":
        return "f%d" % t.width
    if t.kind == "bool":
        return "bool"
    if t.kind == "enum":
        return mtype(cm, cm.enums[t.tag]["underlying"], names)
    if t.kind in ("struct", "union"):
        return dia(cm, "mod") + "::" + mname_tag(cm, t.tag, names)
    if t.kind == "ptr":
        to = t.to
        if to.kind == "fn":
            args = ", ".join(mtype(cm, p, names) for p in to.params)
            ret = "" if to.ret.kind == "void" else " -> " + mtype(cm, to.ret, names)
            return "Option<unsafe extern \"C\" fn(%s)%s>" % (args, ret)
        if to.kind == "void" or (to.kind == "struct" and cm.structs.get(to.tag, {}).get("incomplete", True)):
            return "*mut core::ffi::c_void"
        return "*mut %s" % mtype(cm, to, names)
    if t.kind == "void":
        return "()"
    raise Mismatch("unsupported C type in a declaration: %r" % t)


def emit_mirror(cm, names):
    """pub mod m { #[repr(C)] structs/unions mirroring every complete C struct/union }"""
    mod = dia(cm, "mod")
    out = ["#[cfg(kani)]\n#[allow(unused, non_snake_case, non_camel_case_types)]\npub mod %s {" % mod, "    use super::%s;" % mod]
    # make names deterministic: named tags first
    for tag in sorted(cm.structs, key=lambda t: (not re.fullmatch(r"tag-\w+", t), t)):
        s = cm.structs[tag]
        if s["incomplete"]:
            continue
        nm = mname_tag(cm, tag, names)
    for tag in sorted(cm.structs, key=lambda t: (not re.fullmatch(r"tag-\w+", t), t)):
        s = cm.structs[tag]
        if s["incomplete"]:
            continue
        nm = mname_tag(cm, tag, names)
        fields = []
        for name, t, pad in s["members"]:
            if pad:
                continue
            fname = name.replace("$", "")
            fields.append("pub %s: %s" % (fname, mtype(cm, t, names)))
        kw = "union" if s["kind"] == "union" else "struct"
        if s["kind"] == "union" and not fields:
            out.append("    #[repr(C)]\n    #[derive(Clone, Copy)]\n    pub struct %s {}" % nm)
            continue
        out.append("    #[repr(C)]\n    #[derive(Clone, Copy)]\n    pub %s %s { %s }" % (kw, nm, ", ".join(fields)))
    out.append("}")
    return "\n".join(out)


def layout_asserts(cm, names):
    """const assertions: rustc's layout of each mirror equals the layout CBMC's C front end computed"""
    out = []
    if dia(cm, "name") != "c":
        return out
    for tag, s in cm.structs.items():
        if s["incomplete"] or (s["kind"] == "union" and not [1 for m_ in s["members"] if not m_[2]]):
            continue
        nm = mname_tag(cm, tag, names)
        size = cm.sizeof(CType(s["kind"], tag=tag))
        out.append("assert!(core::mem::size_of::<m::%s>() == %d, \"harness: mirror of %s has a different size than the C front end computed\");" % (nm, size, nm))
        if s["kind"] == "struct":
            for fname, off, _t in cm.offsets(tag):
                out.append("assert!(core::mem::offset_of!(m::%s, %s) == %d, \"harness: mirror field offset differs from the C front end's\");" % (nm, fname.replace("$", ""), off))
    return out


# ---- helpers ----------------------------------------------------------------------------------------

def c_leaf(cm, t, e):
    """leaf value of a scalar read with the *C* type's width and signedness"""
    if t.kind == "int":
        return "(%s) as i128" % e
    if t.kind == "float":
        return "(%s).to_bits() as i128" % e
    if t.kind == "bool":
        return "(%s) as i128" % e
    if t.kind == "enum":
        return "(%s) as i128" % e
    raise Mismatch("expected a scalar C type, found %r" % t)


def jvm_leaf(cm, ir_t, c_t, e):
    """Kotlin/JNA carries DiplomatByte / DiplomatChar (raw byte / code point) in the signed JVM types Byte / Int and
    `bool` results in Byte: for exactly these the bits are compared, not the sign interpretation (stated assumption)."""
    if dia(cm, "name") == "kotlin" and c_t.kind == "int" and c_t.signed:
        if ir_t.name == "DiplomatByte" and c_t.width == 8:
            return "(%s) as u8 as i128" % e
        if ir_t.name == "DiplomatChar" and c_t.width == 32:
            return "(%s) as u32 as i128" % e
    return c_leaf(cm, c_t, e)


def struct_members(cm, t):
    if t.kind not in ("struct", "union") or t.tag not in cm.structs or cm.structs[t.tag]["incomplete"]:
        raise Mismatch("expected a complete C struct, found %r" % t)
    return [(n, ty) for n, ty, pad in cm.structs[t.tag]["members"] if not pad]


class TS:
    """shape of an option/result record as declared by a back end"""

    def __init__(self):
        self.flag = None
        self.flag_is_bool = True
        self.ok_path = self.err_path = None     # member path from the record to the payload
        self.ok_t = self.err_t = None
        self.union_field = self.union_t = None

    def flag_read(self, e):
        return "%s.%s" % (e, self.flag) if self.flag_is_bool else "(%s.%s != 0)" % (e, self.flag)

    def literal(self, cx, c_t, ok_expr, flag_expr):
        MT = mtype(cx.cm, c_t, cx.names)
        fl = flag_expr if self.flag_is_bool else "(%s) as i8" % flag_expr
        if self.union_field is not None:
            UT = mtype(cx.cm, self.union_t, cx.names)
            return "%s { %s: %s { ok: %s }, %s: %s }" % (MT, self.union_field, UT, ok_expr, self.flag, fl)
        return "%s { %s: %s, %s: %s }" % (MT, self.ok_path, ok_expr, self.flag, fl)


def tagged_shape(cm, t):
    """record {union {ok; err;}; bool is_ok;} (C, Dart, Kotlin results) or {value; isOk} (Kotlin options)"""
    flag = dia(cm, "flag")
    ts = TS()
    ts.flag = flag
    ms = struct_members(cm, t)
    names = [n for n, _ in ms]
    if flag not in names:
        raise Mismatch("expected an option/result record with an %s member, found %r with members %s" % (flag, t, names))
    isok_t = dict(ms)[flag]
    if isok_t.kind == "bool":
        ts.flag_is_bool = True
    elif dia(cm, "name") == "kotlin" and isok_t.kind == "int" and isok_t.width == 8:
        ts.flag_is_bool = False
    else:
        raise Mismatch("%s is not a one-byte boolean: %r" % (flag, isok_t))
    rest = [(n, ty) for n, ty in ms if n != flag]
    if names.index(flag) != len(names) - 1:
        raise Mismatch("%s is not the last member of %r" % (flag, t))
    if not rest:
        return ts
    if len(rest) != 1:
        raise Mismatch("expected exactly one payload member before %s in %r" % (flag, t))
    an, ut = rest[0]
    if ut.kind == "union":
        if dia(cm, "name") == "c" and not [1 for m_ in cm.structs[ut.tag]["members"] if not m_[2]]:
            raise Mismatch("the record %r declares an empty union: that is zero bytes in GNU C but one byte in C++ (which includes the same declarations) "
                           "and ill-formed ISO C, so the position of is_ok depends on the consumer; unit arms must occupy no payload" % t)
        um = dict(struct_members(cm, ut)) if not cm.structs[ut.tag].get("empty") else {}
        extra = set(um) - {"ok", "err"}
        if extra:
            raise Mismatch("unexpected union members %s in %r" % (sorted(extra), t))
        ts.union_field, ts.union_t = an.replace("$", ""), ut
        if "ok" in um:
            ts.ok_path, ts.ok_t = "%s.ok" % ts.union_field, um["ok"]
        if "err" in um:
            ts.err_path, ts.err_t = "%s.err" % ts.union_field, um["err"]
        return ts
    if dia(cm, "name") == "kotlin" and an == "value":
        ts.ok_path, ts.ok_t = "value", ut
        return ts
    raise Mismatch("expected a union before %s in %r, found member %s" % (flag, t, an))


def view_shape(cm, t):
    dn, ln = dia(cm, "slice")
    ms = struct_members(cm, t)
    d = dict(ms)
    if [n for n, _ in ms] != [dn, ln]:
        raise Mismatch("expected a slice view {%s, %s}, found %r with members %s" % (dn, ln, t, [n for n, _ in ms]))
    if d[dn].kind != "ptr":
        raise Mismatch("slice view data is not a pointer: %r" % d[dn])
    if not (d[ln].kind == "int" and d[ln].width == 64 and not d[ln].signed):
        raise Mismatch("slice view length is not size_t: %r" % d[ln])
    to = d[dn].to
    if to.kind == "void" or (to.kind == "struct" and to.tag is None):
        return None      # the back end does not declare the element type (JNA `Pointer`)
    return to


def ir_prim_ctype(p):
    """the C type of a Rust primitive itself (used only where a back end leaves the element type undeclared)"""
    n = p.name
    table = {"i8": ("int", 8, True), "u8": ("int", 8, False), "i16": ("int", 16, True), "u16": ("int", 16, False),
             "i32": ("int", 32, True), "u32": ("int", 32, False), "i64": ("int", 64, True), "u64": ("int", 64, False),
             "isize": ("int", 64, True), "usize": ("int", 64, False), "f32": ("float", 32, None), "f64": ("float", 64, None),
             "bool": ("bool", 8, None), "DiplomatChar": ("int", 32, False), "DiplomatByte": ("int", 8, False)}
    k, w, sg = table[n]
    return CType(k, width=w, signed=sg)


def prim_pre(ir_t, var):
    """documented precondition of a primitive beyond its C type (none for the primitives supported)"""
    return []


# ---- arguments: construct a symbolic C-side value and the leaves C passed -----------------------------

class Arg:
    def __init__(self):
        self.setup, self.exp, self.post, self.cleanup = [], [], [], []
        self.expr = None
        self.created = 0   # opaque objects the harness created (to be destroyed by it)
        self.owned_by_rust = False


def gen_arg(cx, ir_t, c_t, base, top=True):
    cm = cx.cm
    a = Arg()
    v = cx.fresh(base)
    MT = mtype(cm, c_t, cx.names)
    if isinstance(ir_t, Prim):
        if c_t.kind not in ("int", "float", "bool"):
            raise Mismatch("%s: Rust primitive %s but C declares %r" % (base, ir_t.name, c_t))
        a.setup.append("let %s: %s = kani::any();" % (v, MT))
        if ir_t.name == "bool" and c_t.kind == "int":
            a.setup.append("kani::assume(%s == 0 || %s == 1);" % (v, v))   # a bool carried in an integer type holds 0 or 1
        a.exp.append("exp.push(%s);" % jvm_leaf(cm, ir_t, c_t, v))
        a.expr = v
        return a
    if isinstance(ir_t, EnumT):
        if c_t.kind == "int" and dia(cm, "name") != "c":
            if not (c_t.width == 32 and c_t.signed):
                raise Mismatch("%s: Rust enum %s (repr(C), 32-bit signed) but the native declaration uses %r" % (base, ir_t.name, c_t))
            consts = cx.mod.enums[ir_t.name].values()   # values are the documented precondition, taken from the Rust enum
        elif c_t.kind != "enum":
            raise Mismatch("%s: Rust enum %s but C declares %r" % (base, ir_t.name, c_t))
        else:
            consts = cm.enums[c_t.tag]["consts"]
            cx.enums_used.add((ir_t.name, c_t.tag))
        a.setup.append("let %s: %s = kani::any();" % (v, MT))
        a.setup.append("kani::assume(%s);" % " || ".join("%s == %d" % (v, val) for _, val in consts))
        a.exp.append("exp.push(%s as i128);" % v)
        a.expr = v
        return a
    if isinstance(ir_t, StructT):
        sd = cx.mod.structs[ir_t.name]
        ms = struct_members(cm, c_t)
        cnames = [n for n, _ in ms]
        inames = [n for n, _ in sd.fields]
        if sorted(cnames) != sorted(inames):
            raise Mismatch("%s: struct %s has fields %s in Rust but %s in the C header" % (base, ir_t.name, inames, cnames))
        subs = {}
        for fname, ft in sd.fields:
            sub = gen_arg(cx, ft, dict(ms)[fname], "%s_%s" % (base, fname), top=False)
            subs[fname] = sub
            a.setup += sub.setup
            a.post += sub.post
            a.cleanup += sub.cleanup
            a.created += sub.created
        a.setup.append("let %s = %s { %s };" % (v, MT, ", ".join("%s: %s" % (n, subs[n].expr) for n in cnames)))
        for fname, _ in sd.fields:       # leaves in *Rust* declaration order
            a.exp += subs[fname].exp
        a.expr = v
        return a
    if isinstance(ir_t, Opt):
        ts = tagged_shape(cm, c_t)
        if ts.ok_t is None:
            raise Mismatch("%s: Option payload %s but the record has no ok member" % (base, ir_t.inner.rust()))
        if ts.err_t is not None:
            raise Mismatch("%s: Option record has an err member" % base)
        sub = gen_arg(cx, ir_t.inner, ts.ok_t, base + "_some", top=False)
        a.setup += sub.setup
        a.post += ["if %s_is { %s }" % (v, " ".join(sub.post))] if sub.post else []
        a.cleanup += sub.cleanup
        a.created += sub.created
        a.setup.append("let %s_is: bool = kani::any();" % v)
        a.setup.append("let %s = %s;" % (v, ts.literal(cx, c_t, sub.expr, "%s_is" % v)))
        a.exp.append("exp.push(%s_is as i128); if %s_is { %s }" % (v, v, " ".join(sub.exp)))
        a.expr = v
        a.owned_by_rust = sub.owned_by_rust
        return a
    if isinstance(ir_t, OpaqueRef):
        if c_t.kind != "ptr" or not (c_t.to.kind == "struct"):
            raise Mismatch("%s: opaque reference but C declares %r" % (base, c_t))
        ctag = (c_t.to.tag[4:] if c_t.to.tag.startswith("tag-") else c_t.to.tag) if c_t.to.tag else None
        if ctag is not None and ctag != ir_t.name:
            raise Mismatch("%s: Rust opaque %s but C pointer to %s" % (base, ir_t.name, ctag))
        a.setup.append("let %s_obj: *mut %s = Box::into_raw(Box::new(%s::verif_new(kani::any())));" % (v, ir_t.name, ir_t.name))
        a.created = 1
        if ir_t.optional:
            a.setup.append("let %s_null: bool = kani::any();" % v)
            a.setup.append("let %s: %s = if %s_null { core::ptr::null_mut() } else { %s_obj as *mut core::ffi::c_void };" % (v, MT, v, v))
            a.exp.append("exp.push(!%s_null as i128); if !%s_null { exp.push(%s_obj as usize as i128); exp.push((*%s_obj).tag as i128); }" % (v, v, v, v))
        else:
            a.setup.append("let %s: %s = %s_obj as *mut core::ffi::c_void;" % (v, MT, v))
            a.exp.append("exp.push(%s_obj as usize as i128); exp.push((*%s_obj).tag as i128);" % (v, v))
        a.cleanup.append(("destroy", ir_t.name, "%s_obj" % v))
        a.expr = v
        a.obj = "%s_obj" % v
        return a
    if isinstance(ir_t, (Slice, Str)):
        elem_c = view_shape(cm, c_t)
        elem_ir = ir_t.elem if isinstance(ir_t, Slice) else ir_t.elem()
        if elem_c is None:
            elem_c = ir_prim_ctype(elem_ir)
        if elem_c.kind not in ("int", "float", "bool"):
            raise Mismatch("%s: slice element is not a scalar in C: %r" % (base, elem_c))
        EM = mtype(cm, elem_c, cx.names)
        kind = ir_t.kind
        a.setup.append("let mut %s_arr: [%s; %d] = kani::any();" % (v, EM, SLICE_N))
        if isinstance(ir_t, Str) and ir_t.enc == "utf8":
            a.setup.append("{ let mut i = 0; while i < %d { kani::assume((%s_arr[i] as u8) < 0x80); i += 1; } }" % (SLICE_N, v))
        a.setup.append("let %s_len: usize = kani::any(); kani::assume(%s_len <= %d);" % (v, v, SLICE_N))
        a.setup.append("let %s_null: bool = kani::any();" % v)
        if kind == "box":
            # owned: the foreign side allocates (diplomat_alloc == Rust's allocator), Rust frees
            sel = " ".join("%d => Box::new([%s]) as Box<[%s]>," % (k, ", ".join("%s_arr[%d]" % (v, i) for i in range(k)), EM) for k in range(SLICE_N))
            a.setup.append("let %s_box: Box<[%s]> = match %s_len { %s _ => Box::new(%s_arr) as Box<[%s]> };" % (v, EM, v, sel, v, EM))
            a.setup.append("let %s_ptr: *mut %s = if %s_null && %s_len == 0 { drop(%s_box); core::ptr::null_mut() } else { Box::into_raw(%s_box) as *mut %s };"
                           % (v, EM, v, v, v, v, EM))
            a.owned_by_rust = True
        else:
            a.setup.append("let %s_ptr: *mut %s = if %s_null { core::ptr::null_mut() } else { %s_arr.as_mut_ptr() };" % (v, EM, v, v))
        a.setup.append("let %s_n: usize = if %s_null { 0 } else { %s_len };" % (v, v, v))
        a.setup.append("let %s = %s { %s: %s_ptr as _, %s: %s_n as _ };" % (v, MT, dia(cm, "slice")[0], v, dia(cm, "slice")[1], v))
        a.exp.append("exp.push(%s_n as i128); { let mut i = 0; while i < %s_n { exp.push(%s); i += 1; } }" % (v, v, c_leaf(cm, elem_c, "%s_arr[i]" % v)))
        if kind == "mut":
            a.setup.append("let %s_orig = %s_arr;" % (v, v))
            bumped = {"float": "%s::from_bits(%s_orig[0].to_bits() ^ 1)" % (EM, v), "bool": "!%s_orig[0]" % v}.get(elem_c.kind, "%s_orig[0].wrapping_add(1)" % v)
            a.post.append("if %s_n > 0 { assert!(%s == %s, \"C01: write through a mutable slice is not visible to the caller\"); }"
                          % (v, c_leaf(cm, elem_c, "%s_arr[0]" % v), c_leaf(cm, elem_c, bumped)))
            a.post.append("{ let mut i = 1; while i < %d { assert!(%s == %s, \"C01: mutable slice element changed unexpectedly\"); i += 1; } }"
                          % (SLICE_N, c_leaf(cm, elem_c, "%s_arr[i]" % v), c_leaf(cm, elem_c, "%s_orig[i]" % v)))
        a.expr = v
        a.arr, a.n_expr, a.ptr = "%s_arr" % v, "%s_n" % v, "%s_ptr" % v
        return a
    if isinstance(ir_t, StrSlice):
        if dia(cm, "name") != "c":
            raise Unsupported("slices of string views are only handled for the C header")
        inner_c = view_shape(cm, c_t)
        try:
            elem_c = view_shape(cm, inner_c)
        except Mismatch:
            raise Mismatch("%s: a slice of string views (%s) needs a view whose elements are {data, len} views, but the declaration's element type is %r"
                           % (base, ir_t.rust(), inner_c))
        EM = mtype(cm, elem_c, cx.names)
        IT = mtype(cm, inner_c, cx.names)
        a.setup.append("let mut %s_a0: [%s; 2] = kani::any(); let mut %s_a1: [%s; 2] = kani::any();" % (v, EM, v, EM))
        a.setup.append("let %s_l0: usize = kani::any(); let %s_l1: usize = kani::any(); kani::assume(%s_l0 <= 2 && %s_l1 <= 2);" % (v, v, v, v))
        a.setup.append("let mut %s_views: [%s; 2] = [%s { data: %s_a0.as_mut_ptr(), len: %s_l0 as _ }, %s { data: %s_a1.as_mut_ptr(), len: %s_l1 as _ }];"
                       % (v, IT, IT, v, v, IT, v, v))
        a.setup.append("let %s_n: usize = kani::any(); kani::assume(%s_n <= 2);" % (v, v))
        a.setup.append("let %s = %s { data: %s_views.as_mut_ptr(), len: %s_n as _ };" % (v, MT, v, v))
        a.exp.append("exp.push(%s_n as i128); if %s_n > 0 { exp.push(%s_l0 as i128); { let mut i = 0; while i < %s_l0 { exp.push(%s); i += 1; } } } "
                     "if %s_n > 1 { exp.push(%s_l1 as i128); { let mut i = 0; while i < %s_l1 { exp.push(%s); i += 1; } } }"
                     % (v, v, v, v, c_leaf(cm, elem_c, "%s_a0[i]" % v), v, v, v, c_leaf(cm, elem_c, "%s_a1[i]" % v)))
        a.expr = v
        return a
    raise Mismatch("%s: unsupported parameter type %s" % (base, ir_t.rust()))


# ---- returns: read the C-side view of what Rust returned ---------------------------------------------

class Ret:
    def __init__(self):
        self.got, self.cleanup = [], []
        self.covers = []


def gen_ret(cx, ir_t, c_t, e, base, ctx="ret"):
    cm = cx.cm
    r = Ret()
    if isinstance(ir_t, Prim):
        if c_t.kind not in ("int", "float", "bool"):
            raise Mismatch("%s: Rust returns primitive %s but C declares %r" % (base, ir_t.name, c_t))
        r.got.append("got.push(%s);" % jvm_leaf(cm, ir_t, c_t, e))
        return r
    if isinstance(ir_t, Ordering):
        if not (c_t.kind == "int" and c_t.width == 8 and c_t.signed):
            raise Mismatch("%s: Ordering must be int8_t in C, found %r" % (base, c_t))
        r.got.append("got.push((%s) as i128);" % e)
        return r
    if isinstance(ir_t, EnumT):
        if c_t.kind == "int" and dia(cm, "name") != "c":
            if not (c_t.width == 32 and c_t.signed):
                raise Mismatch("%s: Rust returns enum %s (32-bit signed) but the native declaration uses %r" % (base, ir_t.name, c_t))
        elif c_t.kind != "enum":
            raise Mismatch("%s: Rust returns enum %s but C declares %r" % (base, ir_t.name, c_t))
        else:
            cx.enums_used.add((ir_t.name, c_t.tag))
        r.got.append("got.push((%s) as i128);" % e)
        return r
    if isinstance(ir_t, StructT):
        sd = cx.mod.structs[ir_t.name]
        ms = struct_members(cm, c_t)
        if sorted(n for n, _ in ms) != sorted(n for n, _ in sd.fields):
            raise Mismatch("%s: struct %s has fields %s in Rust but %s in the C header" % (base, ir_t.name, [n for n, _ in sd.fields], [n for n, _ in ms]))
        for fname, ft in sd.fields:
            sub = gen_ret(cx, ft, dict(ms)[fname], "%s.%s" % (e, fname), "%s_%s" % (base, fname), "field")
            r.got += sub.got
            r.cleanup += sub.cleanup
        return r
    if isinstance(ir_t, (Opt, Res)):
        ts = tagged_shape(cm, c_t)
        okt, errt = ts.ok_t, ts.err_t
        ok_ir = ir_t.inner if isinstance(ir_t, Opt) else ir_t.ok
        err_ir = None if isinstance(ir_t, Opt) else ir_t.err
        # a zero-sized (field-less) struct is like unit on the wire: no payload member
        zst = lambda t: isinstance(t, StructT) and not cx.mod.structs[t.name].fields
        ok_ir = None if zst(ok_ir) else ok_ir
        err_ir = None if zst(err_ir) else err_ir
        if (ok_ir is None) != (okt is None):
            raise Mismatch("%s: ok arm is %s in Rust but the record %s an ok member (unit arms must occupy no payload)"
                           % (base, ok_ir.rust() if ok_ir else "()", "has" if okt else "lacks"))
        if (err_ir is None) != (errt is None):
            raise Mismatch("%s: err arm is %s in Rust but the record %s an err member (unit arms must occupy no payload)"
                           % (base, err_ir.rust() if err_ir else "()", "has" if errt else "lacks"))
        oks = gen_ret(cx, ok_ir, okt, "%s.%s" % (e, ts.ok_path), base + "_ok", ctx) if ok_ir else Ret()
        errs = gen_ret(cx, err_ir, errt, "%s.%s" % (e, ts.err_path), base + "_err", ctx) if err_ir else Ret()
        fl = ts.flag_read(e)
        if not ts.flag_is_bool:
            r.got.append("assert!(%s.%s == 0 || %s.%s == 1, \"C07: the flag byte must be 0 or 1\");" % (e, ts.flag, e, ts.flag))
        r.got.append("got.push(%s as i128); if %s { %s } else { %s }" % (fl, fl, " ".join(oks.got), " ".join(errs.got)))
        if oks.cleanup:
            r.cleanup.append(("if", fl, oks.cleanup))
        if errs.cleanup:
            r.cleanup.append(("if", "!%s" % fl, errs.cleanup))
        r.covers += ["kani::cover!(%s);" % fl, "kani::cover!(!%s);" % fl]
        return r
    if isinstance(ir_t, (OpaqueBox, OpaqueRef)):
        if c_t.kind != "ptr" or c_t.to.kind != "struct":
            raise Mismatch("%s: opaque pointer return but C declares %r" % (base, c_t))
        ctag = c_t.to.tag[4:] if c_t.to.tag else None
        if ctag is not None and ctag != ir_t.name:
            raise Mismatch("%s: Rust opaque %s but C pointer to %s" % (base, ir_t.name, ctag))
        rd = "got.push((%s) as usize as i128); got.push((*((%s) as *const %s)).tag as i128);" % (e, e, ir_t.name)
        if ir_t.optional:
            r.got.append("if (%s).is_null() { got.push(0); } else { got.push(1); %s }" % (e, rd))
            r.covers += ["kani::cover!((%s).is_null());" % e, "kani::cover!(!(%s).is_null());" % e]
        else:
            r.got.append("assert!(!(%s).is_null(), \"C10: a present pointer must be non-null\"); %s" % (e, rd))
        if isinstance(ir_t, OpaqueBox):
            if ir_t.optional:
                r.cleanup.append(("if", "!(%s).is_null()" % e, [("destroy_ret", ir_t.name, e)]))
            else:
                r.cleanup.append(("destroy_ret", ir_t.name, e))
        return r
    if isinstance(ir_t, (Slice, Str)):
        elem_c = view_shape(cm, c_t)
        if elem_c is None:
            elem_c = ir_prim_ctype(ir_t.elem if isinstance(ir_t, Slice) else ir_t.elem())
        dn, ln = dia(cm, "slice")
        r.got.append("got.push(%s.%s as i128); { let mut i: usize = 0; while i < (%s.%s as usize) { got.push(%s); i += 1; } }"
                     % (e, ln, e, ln, c_leaf(cm, elem_c, "*(%s.%s as *const %s).add(i)" % (e, dn, mtype(cm, elem_c, cx.names)))))
        if ctx == "ret":
            r.got.append("if %s.%s > 0 { got.push(%s.%s as usize as i128); }" % (e, ln, e, dn))
        return r
    raise Mismatch("%s: unsupported return type %s" % (base, ir_t.rust()))


# ---- whole-method harness --------------------------------------------------------------------------

def render_cleanup(cl, cm, created_counter):
    out = []
    for c in cl:
        if c[0] == "if":
            out.append("if %s { %s }" % (c[1], " ".join(render_cleanup(c[2], cm, created_counter))))
        elif c[0] in ("destroy", "destroy_ret"):
            tname, ptr = c[1], c[2]
            fn = "%s_destroy" % tname
            if fn in cm.functions:
                out.append("{ let before = vs::DROPS; %s(vs::cast((%s) as *mut core::ffi::c_void)); "
                           "assert!(vs::DROPS == before + 1, \"C03: destroy must drop the object exactly once\"); }" % (fn, ptr))
            elif dia(cm, "name") != "c":
                out.append("drop(Box::from_raw((%s) as *mut %s));" % (ptr, tname))
            else:
                raise Mismatch("no %s in the C header" % fn)
    return out


def method_unwind(mod, m):
    n = 2
    for _, t in m.params:
        if hasattr(t, "nleaves"):
            n += t.nleaves(mod)
    nr = m.ret.nleaves(mod) if (m.ret is not None and hasattr(m.ret, "nleaves")) else 0
    return max(n, nr, SLICE_N, 8) + 3


def gen_method_harness(cx, m, name_prefix=None):
    """Returns (harness_name, rust_text, tags) or raises Mismatch."""
    mod, cm = cx.mod, cx.cm
    name_prefix = name_prefix or dia(cm, "prefix")
    abi = m.abi_name()
    if abi not in cm.functions:
        raise Mismatch("the Rust module exports %s but no %s declaration refers to it" % (abi, dia(cm, "name")))
    f = cm.functions[abi]
    cparams = list(f["params"])
    ir_params = []
    kind = mod.owner_kind(m.owner)
    if m.self_kind in ("ref", "mut"):
        ir_params.append(("self", OpaqueRef(m.owner, mut=(m.self_kind == "mut"))))
    elif m.self_kind == "val":
        ir_params.append(("self", EnumT(m.owner) if kind == "enum" else StructT(m.owner)))
    ir_params += m.params
    if len(ir_params) != len(cparams):
        raise Mismatch("%s: Rust function takes %d parameters (%s) but the C prototype declares %d (%s)"
                       % (abi, len(ir_params), ", ".join(n for n, _ in ir_params), len(cparams), ", ".join(n for n, _ in cparams)))
    setup, exp, post, cleanup, call_args = [], [], [], [], []
    tags = {"C01"}
    write_var = None
    cb = None
    for (pn, pt), (cn, ct) in zip(ir_params, cparams):
        if isinstance(pt, Write):
            tags.add("C12")
            if dia(cm, "name") != "c":
                if ct.kind != "ptr":
                    raise Mismatch("%s: DiplomatWrite parameter but the native declaration uses %r" % (abi, ct))
                write_var = cx.fresh("w")
                setup.append("let mut %s_buf = [0xAAu8; 8];" % write_var)
                setup.append("let mut %s = vs::WMirror { context: core::ptr::null_mut(), buf: %s_buf.as_mut_ptr(), len: 0, cap: 8, grow_failed: false, "
                             "flush: vs::wm_flush, grow: vs::wm_grow };" % (write_var, write_var))
                call_args.append("vs::cast(&mut %s as *mut vs::WMirror)" % write_var)
                continue
            if not (ct.kind == "ptr" and ct.to.kind == "struct" and ct.to.tag == "tag-DiplomatWrite"):
                raise Mismatch("%s: DiplomatWrite parameter but C declares %r" % (abi, ct))
            write_var = cx.fresh("w")
            setup.append("let mut %s_buf = [0xAAu8; 8];" % write_var)
            setup.append("let mut %s = m::DiplomatWrite { context: core::ptr::null_mut(), buf: %s_buf.as_mut_ptr() as *mut _, len: 0, cap: 8, grow_failed: false, "
                         "flush: Some(hflush), grow: Some(hgrow) };" % (write_var, write_var))
            call_args.append("vs::cast(&mut %s as *mut m::DiplomatWrite)" % write_var)
            continue
        if isinstance(pt, Callback):
            if dia(cm, "name") != "c":
                raise Unsupported("callbacks are only handled for the C header")
            cb = gen_callback(cx, pt, ct, abi, pn)
            setup += cb["setup"]
            exp += cb["exp_after"]
            cx.support.append(cb["support"])
            call_args.append("vs::cast(%s)" % cb["expr"])
            tags.add("C03")
            continue
        a = gen_arg(cx, pt, ct, pn)
        setup += a.setup
        exp += a.exp
        post += a.post
        cleanup += a.cleanup
        call_args.append("vs::cast(%s)" % a.expr)
        if _mentions(pt, (Opt,)) or (isinstance(pt, (OpaqueRef, OpaqueBox)) and pt.optional):
            tags.add("C10")        # an optional pointer parameter: NULL exactly when absent
        if _mentions(pt, (EnumT,)):
            tags.add("C11")
        if a.owned_by_rust:
            tags.add("C03")
    body = ["vs::SEED = kani::any();"]
    body += setup
    body.append("let mut exp = vs::Log::new();")
    body += exp
    rett = f["ret"]
    if m.ret is None:
        if rett.kind != "void":
            raise Mismatch("%s: Rust returns () but C declares %r" % (abi, rett))
        body.append("%s(%s);" % (abi, ", ".join(call_args)))
    else:
        if rett.kind == "void":
            raise Mismatch("%s: Rust returns %s but C declares void" % (abi, m.ret.rust()))
        body.append("let r = %s(%s);" % (abi, ", ".join(call_args)))
    body.append("assert!(vs::CALLS == 1, \"C01: the Rust method must be invoked exactly once\");")
    if cb:
        body += cb["post"]
    body.append("assert!(vs::same(vs::arg_log(), &exp), \"C01: arguments seen by the Rust method differ from the values C passed\");")
    covers = []
    if m.ret is not None:
        RT = mtype(cm, rett, cx.names)
        body.append("let rc: %s = vs::cast(r);" % RT)
        body.append("let mut got = vs::Log::new();")
        rr = gen_ret(cx, m.ret, rett, "rc", "ret")
        body += rr.got
        body.append("assert!(vs::same(vs::ret_log(), &got), \"C01: value seen through the C declaration differs from what the Rust method returned\");")
        cleanup = rr.cleanup + cleanup
        covers += rr.covers
        if _mentions(m.ret, (Opt, Res)) or (isinstance(m.ret, (OpaqueBox, OpaqueRef)) and m.ret.optional):
            tags.add("C10")
        if _mentions(m.ret, (EnumT,)):
            tags.add("C11")
        if _mentions(m.ret, (OpaqueBox,)):
            tags.add("C03")
    if write_var:
        body.append("assert!(vs::FLUSHES == 1, \"C12: the wrapper must flush the writer exactly once after the method returns\");")
        body.append("assert!(!%s.grow_failed && (%s.len as usize) == vs::WROTE_LEN, \"C12: writer length differs from what Rust wrote\");" % (write_var, write_var))
        body.append("{ let mut i = 0; while i < 8 { if i < vs::WROTE_LEN { assert!(%s_buf[i] == vs::WROTE[i], \"C12: writer content differs from what Rust wrote\"); } "
                    "else { assert!(%s_buf[i] == 0xAA, \"C12: byte beyond the written length touched\"); } i += 1; } }" % (write_var, write_var))
        covers.append("kani::cover!(vs::WROTE_LEN == 4);")
    body += post
    body += render_cleanup(cleanup, cm, None)
    body += covers
    body.append("kani::cover!(true);")
    hname = "%s_%s" % (name_prefix, abi)
    unwind = method_unwind(mod, m)
    if write_var:
        unwind = max(unwind, 11)
    text = "    #[cfg(kani)]\n    #[kani::proof]\n    #[kani::unwind(%d)]\n    fn %s() {\n        unsafe {\n            %s\n        }\n    }\n" % (
        unwind, hname, "\n            ".join(body))
    if dia(cm, "tags"):
        tags = set(dia(cm, "tags"))
    return hname, text, sorted(tags)


def _mentions(t, classes, mod=None):
    if t is None:
        return False
    if isinstance(t, classes):
        return True
    if isinstance(t, Opt):
        return _mentions(t.inner, classes)
    if isinstance(t, Res):
        return _mentions(t.ok, classes) or _mentions(t.err, classes)
    return False


WRITE_SUPPORT = '''
    #[cfg(kani)]
    unsafe extern "C" fn hflush(_w: *mut m::DiplomatWrite) { vs::FLUSHES += 1; }
    #[cfg(kani)]
    unsafe extern "C" fn hgrow(_w: *mut m::DiplomatWrite, _n: u64) -> bool { false }
'''


def gen_callback(cx, cbt, ct, abi, pname):
    """Mirror of DiplomatCallback_<fn>_<param>; run_callback logs what the foreign side receives."""
    cm = cx.cm
    ms = dict(struct_members(cm, ct))
    if sorted(ms) != ["data", "destructor", "run_callback"]:
        raise Mismatch("%s: callback struct members are %s" % (abi, sorted(ms)))
    rc = ms["run_callback"]
    if rc.kind != "ptr" or rc.to.kind != "fn":
        raise Mismatch("%s: run_callback is not a function pointer" % abi)
    fn = rc.to
    if len(fn.params) != len(cbt.params) + 1:
        raise Mismatch("%s: callback takes %d arguments in Rust but run_callback declares %d (+data)" % (abi, len(cbt.params), len(fn.params) - 1))
    if (cbt.ret is None) != (fn.ret.kind == "void"):
        raise Mismatch("%s: callback return type disagrees (Rust %s, C %r)" % (abi, cbt.ret.rust() if cbt.ret else "()", fn.ret))
    v = cx.fresh("cb")
    args = ["_data: %s" % mtype(cm, fn.params[0], cx.names)]
    logs = ["let got = vs::cb_seen();"]

    def same_scalar(ir_p, c_p, what):
        # Rust calls run_callback through a function pointer transmuted to its own parameter types; nothing converts,
        # so the declared C scalar must be exactly the Rust primitive (kind, width, signedness)
        want = ir_prim_ctype(ir_p)
        if (c_p.kind, c_p.width) != (want.kind, want.width) or (want.kind == "int" and bool(c_p.signed) != bool(want.signed) and not c_p.is_plain_char):
            raise Mismatch("%s: %s is %s in Rust but the header's run_callback declares %s" % (abi, what, ir_p.name, c_p.c_spelling()))
    for i, (pt, cpt) in enumerate(zip(cbt.params, fn.params[1:])):
        if isinstance(pt, Prim):
            same_scalar(pt, cpt, "callback parameter %d" % i)
    if isinstance(cbt.ret, Prim):
        same_scalar(cbt.ret, fn.ret, "callback return type")
    for i, (pt, cpt) in enumerate(zip(cbt.params, fn.params[1:])):
        args.append("a%d: %s" % (i, mtype(cm, cpt, cx.names)))
        # what the foreign callback receives, read through the header's parameter type
        logs += gen_ret(cx, pt, cpt, "a%d" % i, "cbarg%d" % i, "field").got
    if cbt.ret is not None:
        RT = mtype(cm, fn.ret, cx.names)
        if fn.ret.kind == "float":
            retexpr = "%s::from_bits(vs::CB_RET as _)" % RT
        elif fn.ret.kind == "bool":
            retexpr = "(vs::CB_RET & 1 == 1)"
        elif fn.ret.kind == "enum":
            consts = cm.enums[fn.ret.tag]["consts"]
            retexpr = "match vs::CB_RET & 7 { %s _ => %d }" % (" ".join("%d => %d," % (i, c[1]) for i, c in enumerate(consts[:-1])), consts[-1][1])
        else:
            retexpr = "vs::CB_RET as %s" % RT
        if not isinstance(cbt.ret, (Prim, EnumT)) or fn.ret.kind not in ("int", "float", "bool", "enum"):
            raise Unsupported("callback return type %s" % cbt.ret.rust())
        sig_ret = " -> %s" % RT
    else:
        retexpr, sig_ret = "", ""
    fn_text = ("    #[cfg(kani)]\n    unsafe extern \"C\" fn %s_run(%s)%s { vs::CB_CALLS += 1; assert!(_data as usize == vs::CB_COOKIE, \"C01: callback data pointer\"); %s %s }\n"
               "    #[cfg(kani)]\n    unsafe extern \"C\" fn %s_destroy(_data: %s) { vs::CB_DESTRUCTS += 1; assert!(_data as usize == vs::CB_COOKIE, \"C03: destructor must receive the callback's data pointer\"); }\n"
               % (v, ", ".join(args), sig_ret, " ".join(logs), retexpr, v, mtype(cm, fn.params[0], cx.names)))
    MT = mtype(cm, ct, cx.names)
    setup = ["vs::CB_RET = kani::any();",
             "vs::CB_COOKIE = if kani::any() { 0 } else { 0x5150 };   // the cookie is opaque to Rust: NULL is as good as any other value",
             "let %s_with_destructor: bool = kani::any();" % v,
             "let %s = %s { data: vs::CB_COOKIE as *mut core::ffi::c_void, run_callback: Some(%s_run), destructor: if %s_with_destructor { Some(%s_destroy) } else { None } };"
             % (v, MT, v, v, v)]
    post = ["assert!(vs::CB_CALLS == 1, \"C01: the callback must be run exactly once\");",
            "assert!(vs::same(vs::cb_seen(), vs::cb_sent()), \"C01: arguments seen by the foreign callback differ from what Rust passed\");",
            "assert!(vs::CB_DESTRUCTS == if %s_with_destructor { 1 } else { 0 }, \"C03: callback destructor must run exactly once\");" % v]
    exp_after = []
    if cbt.ret is not None:
        # the body logs the callback's result as an argument leaf: what C returned, read with C's type
        if fn.ret.kind == "float":
            leaf = "(%s::from_bits(vs::CB_RET as _)).to_bits() as i128" % mtype(cm, fn.ret, cx.names)
        elif fn.ret.kind == "bool":
            leaf = "(vs::CB_RET & 1) as i128"
        elif fn.ret.kind == "enum":
            consts = cm.enums[fn.ret.tag]["consts"]
            leaf = "(match vs::CB_RET & 7 { %s _ => %d }) as i128" % (" ".join("%d => %d," % (i, c[1]) for i, c in enumerate(consts[:-1])), consts[-1][1])
        else:
            leaf = "(vs::CB_RET as %s) as i128" % mtype(cm, fn.ret, cx.names)
        exp_after.append("exp.push(%s);" % leaf)
    return {"setup": setup, "expr": v, "post": post, "exp_after": exp_after, "support": fn_text}


# ---- C11: enum constants in the header vs rustc's discriminants ---------------------------------------

def gen_enum_harness(cx, ed):
    cm = cx.cm
    tag = "tag-" + ed.name
    if tag not in cm.enums:
        return None   # enum not used by any exported function: nothing for C to disagree about
    consts = dict(cm.enums[tag]["consts"])
    under = cm.enums[tag]["underlying"]
    if under.width != 32:
        raise Mismatch("enum %s: C underlying type is %d bits, Rust repr(C) enum is 32" % (ed.name, under.width))
    names = [n for n, _ in ed.variants]
    missing = [n for n in names if "%s_%s" % (ed.name, n) not in consts]
    extra = [c for c in consts if c not in ["%s_%s" % (ed.name, n) for n in names]]
    if missing or extra:
        raise Mismatch("enum %s: header constants %s do not match Rust variants %s" % (ed.name, sorted(consts), names))
    n = len(names)
    tbl = ", ".join("%d" % consts["%s_%s" % (ed.name, v)] for v in names)
    vars_ = ", ".join("%s::%s" % (ed.name, v) for v in names)
    arms = " ".join("%s::%s => %d," % (ed.name, v, i) for i, v in enumerate(names))
    body = [
        "let k: usize = kani::any(); kani::assume(k < %d);" % n,
        "let header: [i64; %d] = [%s];" % (n, tbl),
        "let variants: [%s; %d] = [%s];" % (ed.name, n, vars_),
        "assert!(variants[k] as i32 as i64 == header[k], \"C11: enum constant in the C header differs from the discriminant rustc assigns\");",
        "// reverse direction: the header's value, received by Rust, is the variant of the same name",
        "let raw: i32 = header[k] as i32;",
        "let back: %s = core::mem::transmute::<i32, %s>(raw);" % (ed.name, ed.name),
        "let idx: usize = match back { %s };" % arms,
        "assert!(idx == k, \"C11: converting the header's value back selects a different variant\");",
        "kani::cover!(k == %d);" % (n - 1),
    ]
    hname = "c11_enum_%s" % ed.name
    text = "    #[cfg(kani)]\n    #[kani::proof]\n    #[kani::unwind(%d)]\n    fn %s() {\n        unsafe {\n            %s\n        }\n    }\n" % (n + 2, hname, "\n            ".join(body))
    return hname, text, ["C11", "C01"]


# ---- C10: std Option/Result and DiplomatOption/DiplomatResult spellings behave identically -------------

def shape_sig(cm, t, depth=0):
    """structural signature of a C type (names of per-function result typedefs ignored)"""
    if t.kind in ("int", "float", "bool"):
        return repr(t) if not t.is_plain_char else "u8"
    if t.kind == "enum":
        return "enum:" + t.tag
    if t.kind == "ptr":
        return "*" + (shape_sig(cm, t.to, depth + 1) if t.to.kind not in ("struct", "fn") else t.to.kind + ":" + str(t.to.tag))
    if t.kind in ("struct", "union"):
        s = cm.structs[t.tag]
        if s["incomplete"]:
            return "opaque:" + t.tag
        return "%s{%s}" % (t.kind, ",".join("%s:%s" % (n, "pad%d" % ty.width if pad else shape_sig(cm, ty, depth + 1)) for n, ty, pad in s["members"]))
    if t.kind == "void":
        return "void"
    return t.kind


def nominal_sig(cm, t, fn_name):
    """the *name* a declaration uses for a record type, with the per-function prefix abstracted (`Op_m_result` -> `<fn>_result`):
    two spellings of one signature must be declared through the same named types, not merely layout-compatible ones"""
    if t.kind == "ptr":
        return "*" + nominal_sig(cm, t.to, fn_name)
    if t.kind in ("struct", "union", "enum") and t.tag:
        base = t.tag[4:] if t.tag.startswith("tag-") else t.tag
        if not re.fullmatch(r"\w+", base):
            return "anon"
        return base.replace(fn_name, "<fn>") if fn_name and fn_name in base else base
    return t.kind


def gen_pair_harness(cx, ma, mb):
    """ma/mb differ only in the spelling (std vs Diplomat) of their Option/Result types."""
    cm = cx.cm
    fa, fb = cm.functions.get(ma.abi_name()), cm.functions.get(mb.abi_name())
    if fa is None or fb is None:
        raise Mismatch("pair %s/%s: prototype missing in the C header" % (ma.abi_name(), mb.abi_name()))
    sa = [shape_sig(cm, t) for _, t in fa["params"]] + [shape_sig(cm, fa["ret"])]
    sb = [shape_sig(cm, t) for _, t in fb["params"]] + [shape_sig(cm, fb["ret"])]
    if sa != sb:
        raise Mismatch("C10: %s and %s differ only in Option/Result spelling but their C declarations differ: %s vs %s"
                       % (ma.abi_name(), mb.abi_name(), sa, sb))
    na = [nominal_sig(cm, t, ma.abi_name()) for _, t in fa["params"]] + [nominal_sig(cm, fa["ret"], ma.abi_name())]
    nb = [nominal_sig(cm, t, mb.abi_name()) for _, t in fb["params"]] + [nominal_sig(cm, fb["ret"], mb.abi_name())]
    if na != nb:
        raise Mismatch("C10: %s and %s differ only in Option/Result spelling but are declared through differently named C types: %s vs %s"
                       % (ma.abi_name(), mb.abi_name(), na, nb))
    ir_params = []
    if ma.self_kind in ("ref", "mut"):
        ir_params.append(("self", OpaqueRef(ma.owner)))
    ir_params += ma.params
    setup, exp, cleanup, args_a, args_b = [], [], [], [], []
    for (pn, pt), (cn, ct), (_, ctb) in zip(ir_params, fa["params"], fb["params"]):
        a = gen_arg(cx, pt, ct, pn)
        setup += a.setup
        exp += a.exp
        cleanup += a.cleanup
        args_a.append("vs::cast(%s)" % a.expr)
        args_b.append("vs::cast(%s)" % a.expr)
    body = ["vs::SEED = kani::any();"] + setup + ["let mut exp = vs::Log::new();"] + exp
    RTa = mtype(cm, fa["ret"], cx.names)
    RTb = mtype(cm, fb["ret"], cx.names)
    body.append("let ra: %s = vs::cast(%s(%s));" % (RTa, ma.abi_name(), ", ".join(args_a)))
    body.append("let arg_a = *vs::arg_log(); let ret_a = *vs::ret_log();")
    body.append("vs::arg_log().clear(); vs::ret_log().clear(); vs::SEED_I = 0;")
    body.append("let rb: %s = vs::cast(%s(%s));" % (RTb, mb.abi_name(), ", ".join(args_b)))
    body.append("assert!(vs::CALLS == 2);")
    body.append("assert!(vs::same(&arg_a, vs::arg_log()) && vs::same(&arg_a, &exp), \"C10: the two spellings hand the method different values for the same C argument\");")
    body.append("assert!(vs::same(&ret_a, vs::ret_log()), \"harness: both bodies must build the same value from the same seed\");")
    body.append("let mut got = vs::Log::new();")
    ga = gen_ret(cx, ma.ret, fa["ret"], "ra", "ra")
    body += ga.got
    body.append("let got_a = got; let mut got = vs::Log::new();")
    gb = gen_ret(cx, ma.ret, fb["ret"], "rb", "rb")
    body += gb.got
    body.append("assert!(vs::same(&got_a, &got) && vs::same(&got, &ret_a), \"C10: the two spellings return different C-side values for the same Rust value\");")
    body += render_cleanup(ga.cleanup + gb.cleanup + cleanup, cm, None)
    body += ga.covers
    hname = "c10_pair_%s__%s" % (ma.abi_name(), mb.name)
    unwind = method_unwind(cx.mod, ma)
    text = "    #[cfg(kani)]\n    #[kani::proof]\n    #[kani::unwind(%d)]\n    fn %s() {\n        unsafe {\n            %s\n        }\n    }\n" % (unwind, hname, "\n            ".join(body))
    return hname, text, ["C10"]


# ---- C03: symbolic call histories over an opaque type's API --------------------------------------------

def gen_seq_harness(cx, odef, steps):
    """create / borrow / destroy over two handle slots; the harness plays a well-behaved foreign caller."""
    mod, cm = cx.mod, cx.cm
    name = odef.name
    scalar = lambda t: isinstance(t, (Prim, EnumT))
    ctors = [m for m in mod.methods if m.owner == name and m.self_kind is None and isinstance(m.ret, OpaqueBox) and m.ret.name == name
             and all(scalar(t) for _, t in m.params) and m.abi_name() in cm.functions]
    res_ctors = [m for m in mod.methods if m.owner == name and m.self_kind is None and isinstance(m.ret, Res) and isinstance(m.ret.ok, OpaqueBox)
                 and m.ret.ok.name == name and all(scalar(t) for _, t in m.params) and m.abi_name() in cm.functions
                 and (m.ret.err is None or scalar(m.ret.err))]
    borrows = [m for m in mod.methods if m.owner == name and m.self_kind in ("ref", "mut") and all(scalar(t) for _, t in m.params)
               and (m.ret is None or scalar(m.ret) or (isinstance(m.ret, OpaqueRef))) and m.abi_name() in cm.functions][:3]
    dtor = "%s_destroy" % name
    if dtor not in cm.functions or not (ctors or res_ctors):
        return None
    ops = []

    def scalar_args(m, f, skip_self):
        out = []
        ps = f["params"][1:] if skip_self else f["params"]
        for (pn, pt), (cn, ct) in zip(m.params, ps):
            a = gen_arg(cx, pt, ct, pn)
            out.append((a.setup, "vs::cast(%s)" % a.expr))
        return out

    for m in ctors[:2]:
        f = cm.functions[m.abi_name()]
        args = scalar_args(m, f, False)
        set_, call = sum([a[0] for a in args], []), ", ".join(a[1] for a in args)
        if m.ret.optional:
            ops.append("if !live[s] { %s let p: *mut core::ffi::c_void = vs::cast(%s(%s)); if !p.is_null() { slots[s] = p; live[s] = true; created += 1; } }"
                       % (" ".join(set_), m.abi_name(), call))
        else:
            ops.append("if !live[s] { %s let p: *mut core::ffi::c_void = vs::cast(%s(%s)); assert!(!p.is_null()); slots[s] = p; live[s] = true; created += 1; }"
                       % (" ".join(set_), m.abi_name(), call))
    for m in res_ctors[:1]:
        f = cm.functions[m.abi_name()]
        args = scalar_args(m, f, False)
        set_, call = sum([a[0] for a in args], []), ", ".join(a[1] for a in args)
        ts = tagged_shape(cm, f["ret"])
        RT = mtype(cm, f["ret"], cx.names)
        ops.append("if !live[s] { %s let r: %s = vs::cast(%s(%s)); if r.is_ok { let p = r.%s as *mut core::ffi::c_void; assert!(!p.is_null()); slots[s] = p; live[s] = true; created += 1; } }"
                   % (" ".join(set_), RT, m.abi_name(), call, ts.ok_path))
    for m in borrows:
        f = cm.functions[m.abi_name()]
        args = scalar_args(m, f, True)
        set_, call = sum([a[0] for a in args], []), ", ".join(["vs::cast(slots[s])"] + [a[1] for a in args])
        if isinstance(m.ret, OpaqueRef):
            ops.append("if live[s] { %s let q: *mut core::ffi::c_void = vs::cast(%s(%s)); assert!(q.is_null() || q == slots[s], \"C03: borrowed return must point into the live object\"); }"
                       % (" ".join(set_), m.abi_name(), call))
        else:
            ops.append("if live[s] { %s let _ = %s(%s); }" % (" ".join(set_), m.abi_name(), call))
    ops.append("if live[s] { %s(vs::cast(slots[s])); live[s] = false; destroyed += 1; }" % dtor)
    arms = " ".join("%d => { %s }" % (i, op) for i, op in enumerate(ops[:-1])) + " _ => { %s }" % ops[-1]
    body = [
        "let mut slots: [*mut core::ffi::c_void; 2] = [core::ptr::null_mut(); 2];",
        "let mut live = [false; 2];",
        "let mut created: u32 = 0; let mut destroyed: u32 = 0;",
        "let mut step = 0;",
        "while step < %d {" % steps,
        "    vs::SEED = kani::any(); vs::SEED_I = 0; vs::arg_log().clear(); vs::ret_log().clear();",
        "    let s: usize = kani::any(); kani::assume(s < 2);",
        "    let op: u8 = kani::any(); kani::assume(op < %d);" % len(ops),
        "    match op { %s }" % arms,
        "    assert!(vs::DROPS == destroyed, \"C03: an object was dropped by something other than its destroy call\");",
        "    step += 1;",
        "}",
        "kani::cover!(created == 2 && destroyed == 1);",
        "let mut s = 0; while s < 2 { if live[s] { %s(vs::cast(slots[s])); destroyed += 1; } s += 1; }" % dtor,
        "assert!(vs::DROPS == created && destroyed == created, \"C03: every object handed out is dropped exactly once\");",
    ]
    hname = "c03_seq_%s" % name
    text = "    #[cfg(kani)]\n    #[kani::proof]\n    #[kani::unwind(%d)]\n    fn %s() {\n        unsafe {\n            %s\n        }\n    }\n" % (max(steps, 8) + 12, hname, "\n            ".join(body))
    return hname, text, ["C03"]


def generate_all(mod, cm, steps=3):
    """Returns dict(text=harness_text, mirror=mirror_text, harnesses={name: tags}, static=[(subject, message, tags)])."""
    cx = Ctx(mod, cm)
    names = cx.names
    mirror = emit_mirror(cm, names)
    texts, harnesses, static = [], {}, []
    # mirror cross-check harness
    la = layout_asserts(cm, names)
    texts.append("    #[cfg(kani)]\n    #[kani::proof]\n    fn c01_mirror_layout_selfcheck() {\n        %s\n    }\n" % "\n        ".join(la))
    harnesses["c01_mirror_layout_selfcheck"] = ["C01", "C10"]
    for m in mod.methods:
        try:
            h, t, tags = gen_method_harness(cx, m)
            texts.append(t)
            harnesses[h] = tags
        except Mismatch as e:
            tags = ["C01"]
            msg = str(e)
            mentions_opt = any(_mentions(t, (Opt, Res)) for _, t in m.params if not isinstance(t, (Write, Callback))) or _mentions(m.ret, (Opt, Res))
            if mentions_opt or "unit arm" in msg or "Option" in msg or "is_ok" in msg or "result record" in msg:
                tags.append("C10")
            if any(_mentions(t, (EnumT,)) for _, t in m.params if not isinstance(t, (Write, Callback))) or _mentions(m.ret, (EnumT,)):
                tags.append("C11")
            if any(isinstance(t, Write) for _, t in m.params):
                tags.append("C12")
            static.append((m.abi_name(), msg, tags))
    for ed in mod.enums.values():
        if dia(cm, "name") in getattr(ed, "disabled_in", ()):
            continue        # the author disabled this enum for this back end: nothing is declared for it
        try:
            r = gen_enum_harness(cx, ed)
            if r:
                texts.append(r[1])
                harnesses[r[0]] = r[2]
        except Mismatch as e:
            static.append(("enum " + ed.name, str(e), ["C11", "C01"]))
    # pairs: methods named *_std_X / *_dip_X
    by_name = {m.name: m for m in mod.methods}
    for m in mod.methods:
        if "_std_" in m.name:
            other = by_name.get(m.name.replace("_std_", "_dip_"))
            if other is not None:
                try:
                    h, t, tags = gen_pair_harness(cx, m, other)
                    texts.append(t)
                    harnesses[h] = tags
                except Mismatch as e:
                    static.append(("%s / %s" % (m.abi_name(), other.abi_name()), str(e), ["C10"]))
    for od in mod.opaques.values():
        try:
            r = gen_seq_harness(cx, od, steps)
            if r:
                texts.append(r[1])
                harnesses[r[0]] = r[2]
        except Mismatch as e:
            static.append(("sequence " + od.name, str(e), ["C03"]))
    # functions in the header that the Rust module does not have
    known = {m.abi_name() for m in mod.methods} | {"%s_destroy" % o for o in mod.opaques}
    for fn in cm.functions:
        if fn not in known:
            static.append((fn, "the C header declares %s, which the Rust module does not export" % fn, ["C01"]))
    support = WRITE_SUPPORT if "tag-DiplomatWrite" in cm.structs else ""
    support += "".join(dict.fromkeys(cx.support))
    return {"text": support + "\n".join(texts), "mirror": mirror, "harnesses": harnesses, "static": static}


def generate_dialect(mod, cm):
    """Method harnesses only, for a non-C dialect model (Dart / Kotlin native declarations)."""
    cx = Ctx(mod, cm)
    mirror = emit_mirror(cm, cx.names)
    texts, harnesses, static, skipped = [], {}, [], []
    for m in mod.methods:
        try:
            h, t, tags = gen_method_harness(cx, m)
            texts.append(t)
            harnesses[h] = tags
        except Unsupported as e:
            skipped.append((m.abi_name(), str(e)))
        except Mismatch as e:
            static.append((m.abi_name(), str(e), dia(cm, "tags") or ["C07"]))
    known = {m.abi_name() for m in mod.methods} | {"%s_destroy" % o for o in mod.opaques}
    for fn in cm.functions:
        if fn not in known and not fn.startswith("diplomat_"):
            static.append((fn, "the %s bindings refer to native symbol %s, which the Rust module does not export" % (dia(cm, "name"), fn), dia(cm, "tags") or ["C07"]))
    return {"text": "\n".join(texts), "mirror": mirror, "harnesses": harnesses, "static": static, "skipped": skipped}
