"""E3 (Kotlin/JNA): the native declarations the Kotlin back end emits, as a CModel.

Recognised shapes (nothing else; an unrecognised line inside one of them is reported):

  internal interface XLib: Library { fun SYMBOL(p: T, ...): R ... }
  [internal] class X: Structure(), Structure.ByValue { @JvmField [internal] var f: T = init ... getFieldOrder() = listOf(..) }
  internal class XUnion: Union() { @JvmField internal var ok: T = init ... }

JNA lays a Structure out in `getFieldOrder()` order, so that list - not the declaration order - is
the member order of the model; a field missing from it (or an unknown name in it) is a problem.
JNA type table: Byte/Short/Int/Long = signed 8/16/32/64, FFIUint8..64 = unsigned (IntegerType),
FFISizet/FFIIsizet = size_t/ssize_t, Float/Double, Boolean (marshalled as a C int holding 0/1: accepted
as a bool in argument position, stated assumption; as a *result* it is a 32-bit int, which a C function returning
`bool` does not define), Pointer = untyped pointer.
"""
import os
import re

from cfront import CType, CModel

SCALARS = {
    "Byte": ("int", 8, True), "Short": ("int", 16, True), "Int": ("int", 32, True), "Long": ("int", 64, True),
    "FFIUint8": ("int", 8, False), "FFIUint16": ("int", 16, False), "FFIUint32": ("int", 32, False), "FFIUint64": ("int", 64, False),
    "FFISizet": ("int", 64, False), "FFIIsizet": ("int", 64, True),
    "Float": ("float", 32, None), "Double": ("float", 64, None), "Boolean": ("bool", 8, None),
}


def conv(tname, problems, where, position="param"):
    tname = tname.strip()
    nullable = tname.endswith("?")
    if nullable:
        tname = tname[:-1]
    if tname == "Boolean" and position == "ret":
        # JNA converts a Boolean *result* from a native `int`: it reads the whole 32-bit return register, of which a
        # function returning C `bool` defines the low byte only
        return CType("int", width=32, signed=True, typedef="Boolean")
    if tname in SCALARS:
        k, w, s = SCALARS[tname]
        return CType(k, width=w, signed=s, typedef=tname)
    if tname == "Unit":
        return CType("void", typedef=tname)
    if tname == "Pointer":
        return CType("ptr", to=CType("struct", tag=None), typedef="Pointer?" if nullable else "Pointer")
    if re.fullmatch(r"[A-Z]\w*", tname):
        return CType("struct", tag="tag-" + tname, typedef=tname)
    problems.append("%s: unrecognised Kotlin/JNA type %r" % (where, tname))
    return CType("void")


def split_params(s):
    out, depth, cur = [], 0, ""
    for ch in s:
        if ch in "<(":
            depth += 1
        if ch in ">)":
            depth -= 1
        if ch == "," and depth == 0:
            out.append(cur)
            cur = ""
        else:
            cur += ch
    if cur.strip():
        out.append(cur)
    return [p.strip() for p in out]


def parse_text(txt, fname, model, problems):
    # library interfaces
    for m in re.finditer(r"interface\s+(\w+)\s*:\s*Library\s*\{(.*?)\n\}", txt, flags=re.S):
        iname, body = m.group(1), m.group(2)
        for line in body.split("\n"):
            s = line.strip()
            if not s or s.startswith("//"):
                continue
            fm = re.fullmatch(r"fun\s+(\w+)\s*\((.*)\)\s*(?::\s*([\w?]+))?\s*;?", s)
            if not fm:
                problems.append("%s: unrecognised line in interface %s: %r" % (fname, iname, s))
                continue
            sym, ps, ret = fm.group(1), fm.group(2), fm.group(3) or "Unit"
            if iname in ("DiplomatWriteLib", "DiplomatJVMRuntimeLib"):
                continue
            params = []
            for p in split_params(ps):
                pm = re.fullmatch(r"(\w+)\s*:\s*([\w?]+)", p)
                if not pm:
                    problems.append("%s: unrecognised parameter %r of %s" % (fname, p, sym))
                    continue
                params.append((pm.group(1), conv(pm.group(2), problems, "%s(%s)" % (sym, pm.group(1)))))
            model.functions[sym] = {"ret": conv(ret, problems, sym + " return", position="ret"), "params": params, "file": fname,
                                    "line": txt[:m.start()].count("\n") + 1}
    # structures and unions
    for m in re.finditer(r"class\s+(\w+)\s*:\s*(Structure\(\)\s*,\s*Structure\.ByValue|Union\(\))\s*\{", txt):
        cname, base = m.group(1), m.group(2)
        # body = up to the matching brace
        i, depth = m.end(), 1
        while i < len(txt) and depth:
            depth += {"{": 1, "}": -1}.get(txt[i], 0)
            i += 1
        body = txt[m.end():i - 1]
        fields = []
        lines = [l.strip() for l in body.split("\n")]
        k = 0
        d = 0
        while k < len(lines):
            l = lines[k]
            if d == 0 and l.startswith("@JvmField"):
                rest = l[len("@JvmField"):].strip()
                if not rest:
                    k += 1
                    rest = lines[k]
                vm = re.match(r"(?:internal\s+|public\s+)?va[rl]\s+(\w+)\s*:\s*([\w?]+)\s*(?:=.*)?;?", rest)
                if not vm:
                    problems.append("%s: unrecognised @JvmField declaration in %s: %r" % (fname, cname, rest))
                else:
                    fields.append((vm.group(1), conv(vm.group(2), problems, "%s.%s" % (cname, vm.group(1)))))
                l = rest
            d += l.count("{") - l.count("}")
            k += 1
        kind = "union" if base.startswith("Union") else "struct"
        base = re.sub(r"\s+", " ", base)
        members = [(n, t, False) for n, t in fields]
        if kind == "struct":
            om = re.search(r"getFieldOrder\(\)\s*:\s*List<String>\s*\{\s*return listOf\((.*?)\)", body, flags=re.S)
            if not om:
                problems.append("%s: structure %s has no getFieldOrder()" % (fname, cname))
            else:
                order = re.findall(r'"(\w+)"', om.group(1))
                declared = dict(fields)
                if sorted(order) != sorted(declared):
                    problems.append("MISMATCH %s: getFieldOrder() of %s lists %s but the @JvmField members are %s" % (fname, cname, order, list(declared)))
                else:
                    members = [(n, declared[n], False) for n in order]
        model.structs["tag-" + cname] = {"members": members, "kind": kind, "incomplete": False, "file": fname,
                                         "empty": kind == "union" and not members}


def load(kotlin_dir):
    model = CModel()
    problems = []
    for root, _, files in os.walk(kotlin_dir):
        for f in sorted(files):
            if not f.endswith(".kt"):
                continue
            with open(os.path.join(root, f)) as fh:
                txt = fh.read()
            model.header_text[f] = txt
            parse_text(txt, f, model, problems)

    def fix(t):
        if t is None:
            return
        if t.kind in ("struct", "union") and t.tag and t.tag in model.structs:
            t.kind = model.structs[t.tag]["kind"]
        elif t.kind == "struct" and t.tag and t.tag not in model.structs:
            problems.append("reference to unknown Kotlin native class %s" % t.tag)
        if t.kind == "ptr":
            fix(t.to)
    for s in model.structs.values():
        for _, t, _ in s["members"]:
            fix(t)
    for fn in model.functions.values():
        fix(fn["ret"])
        for _, t in fn["params"]:
            fix(t)
    return model, problems


if __name__ == "__main__":
    import sys
    m, probs = load(sys.argv[1])
    print("problems:", probs[:20], len(probs))
    print(len(m.structs), "structs", len(m.functions), "functions")
    for n, f in list(m.functions.items())[:6]:
        print(n, f["ret"], f["params"])
    for t, s in list(m.structs.items())[:6]:
        print(t, s["kind"], [(a, repr(b)) for a, b, _ in s["members"]])
